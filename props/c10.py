"""C10 — every response carries the hardening and no-cache headers, each exactly once."""
from vlib import common as C, serve as S, reqgen as G, strict_http as H, servecheck as K, gen_c10 as X
from props import c04, c05

DRIVERS = ['Serve']   # model driver files this check runs: scopes translator failures to the tables they (and the proofs) import
TRUSTED = []
ASSUMPTIONS = ['responses are those of the C04 and C05 campaigns plus a stream over every status class', 'a byte stream is split into several responses only where the framing leaves no doubt (vlib/gen_c10.py wire_responses)']
WITH_MODEL = True
NO_MODEL = 'own files unreadable (real code only)'

def judge(res, results, label=''):
    for c, r, il, ml in results:
        res.evaluations += 1
        res.distinct.add(hash((c.entry, c.raw, c.app, c.ws, c.alloc, label, c.note if c.kind in ('history', 'history-2') else None)))
        if ml is not None:
            res.programs += 1
            if il != ml: res.disagree(c.line[:400], il[:400], ml[:400], 'Header.get_header_list/Server' + (' env=' + label if label else ''))
        head = r['head']
        if head.startswith(('panic', 'abort')):
            continue    # no response at all: that is C04's finding, not C10's
        # every observation point: the bytes handed to the transport and, on the legacy entry point, the bytes returned to the caller;
        # and EVERY response in them: an entry point that answers more than once on a connection (an interim answer, a second request of
        # a persistent connection, an error report after a failed write) has sent several responses - all bytes the peer accepted are read
        seen = [r['writes'][0]] if r['writes'] else []
        if head.startswith('ret:') and len(head) > 4:
            ret = C.unhx(head[4:])
            if ret and ret not in seen: seen.append(ret)
        unambiguous = c.entry.startswith('aexec') or c.ws == 'all' or str(c.ws).startswith('e:')
        if unambiguous and r['recv'] and r['recv'] not in seen: seen.append(r['recv'])
        judged = set()
        for full in seen:
            if not full: continue
            first = X.parse(full)
            if first is None:
                continue    # no head at all: C05's finding
            # the head as a CLIENT reads it (RFC 9112 2.2: a line ends at LF, a CR before it is dropped; the first empty line ends the head): a
            # value that carries a bare LF ends the head early and pushes the headers behind it into the body
            lines = full.split(b'\n')
            cv = []
            for ln in lines[1:]:
                ln = ln[:-1] if ln.endswith(b'\r') else ln
                if not ln: break
                n, sep, v = ln.partition(b':')
                if sep: cv.append((n.decode('latin1').strip(), v.decode('latin1').strip()))
            badcv = X.judge_headers(dict(status=first['status'], headers=cv)) if not X.judge_headers(first) else []
            if badcv:
                res.fail('missing-or-duplicate:client-view:' + badcv[0], c.line[:300], str(cv[:3])[:200], None,
                         f'C10: read the way a client reads it (lines end at LF) the head of the status {first["status"]} response ends after {len(cv)} header lines and lacks {badcv}; entry {c.entry}; request {c.raw[:120]!r}')
            resps = [first] + (X.wire_responses(full)[1:] if unambiguous or full is not seen[0] else [])
            for k, resp in enumerate(resps):
                key = (resp['status'], tuple(resp['headers']))
                if key in judged: continue
                judged.add(key)
                res.count(f'status {resp["status"]} {c.entry}')
                res.count(f'kind {c.kind}')
                if k: res.count('responses after the first on one connection')
                bad = X.judge_headers(resp)
                if bad:
                    res.fail('missing-or-duplicate:' + bad[0], c.line[:300], str([h for h in resp['headers'] if h[0] in bad])[:200], None,
                             f'C10: status {resp["status"]} response{" (number %d on the connection)" % (k + 1) if k else ""} lacks or repeats {bad}; entry {c.entry}{" env " + label if label else ""}; request {c.raw[:120]!r}')

def run(res, tier, seed):
    rng = C.Rng(seed)
    batches = c04.build(rng, tier)[: (3 if tier == 'quick' else 30)] + c05.build(rng, tier)[: (2 if tier == 'quick' else 20)]
    # own stream: every status class explicitly
    tree = S.gen_tree(rng, small=True)
    p0 = '/' + tree.names[0].decode('utf-8', 'surrogateescape')
    cases = []
    for entry in ('proc', 'preq'):
        for m in G.METHODS:
            for t in (p0, '/', '/missing', '/style.css', '/script.js', '/favicon.svg', '/sub', '/form-get-method?a=b', '/file-upload/initiate', 'x'):
                for hs in ([], [('Range', 'bytes=0-0')], [('Range', 'bytes=9-1')], [('Range', 'bytes=0-0,1-1')], [('Origin', 'http://a')],
                           [('Origin', 'http://a'), ('Access-Control-Request-Method', 'PUT'), ('Access-Control-Request-Headers', 'X-A')]):
                    cases.append(K.mk(tree, m, t, hs, entry=entry, kind='status-classes'))
    # requests that carry the headers the server itself knows (advertised client hints, CORS, caching, framing): one at a time,
    # in three spellings, and all client hints at once
    voc = G.vocab_headers()
    for n in voc:
        for spelled in (n, n.lower(), n.upper()):
            for m, t in (('GET', p0), ('GET', '/'), ('OPTIONS', p0), ('POST', '/missing')):
                if spelled != n and (m, t) != ('GET', p0): continue
                cases.append(K.mk(tree, m, t, [(spelled, rng.choice(['?1', '"x86"', '8', 'x']))], entry=rng.choice(['proc', 'preq']), kind='server-vocabulary-header'))
    hints = [(n, '?1') for n in voc if n.startswith('Sec-CH') or n in ('Downlink', 'ECT', 'RTT', 'Save-Data', 'Device-Memory')]
    for m, t in (('GET', p0), ('HEAD', '/'), ('GET', '/missing'), ('GET', p0 + '?x=1')):
        cases.append(K.mk(tree, m, t, hints, entry='proc', kind='server-vocabulary-header'))
        cases.append(K.mk(tree, m, t, hints + [('Range', 'bytes=0-0')], entry='preq', kind='server-vocabulary-header'))
    # long reflected values (Origin, requested headers): whatever the head costs, the fixed headers are all there
    for n in (1000, 3000, 3529, 3600, 4040, 5000, 7000, 7212, 7300, 8000, 8029, 8159, 8160, 8192, 9000, 9500):
        cases.append(K.mk(tree, 'GET', p0, [('Origin', 'http://' + 'o' * n)], entry=rng.choice(['proc', 'preq']), kind='long-reflected-value'))
        cases.append(K.mk(tree, 'OPTIONS', p0, [('Origin', 'http://o'), ('Access-Control-Request-Method', 'PUT'), ('Access-Control-Request-Headers', 'X-' + 'h' * n)], entry=rng.choice(['proc', 'preq']), kind='long-reflected-value'))
    cases.append(K.mk(tree, 'GET', p0, app='err:' + C.hx('boom'), kind='handler-error'))
    cases.append(K.mk(tree, 'GET', p0, raw=b'\xff\xfe', kind='unparsable'))
    batches.append((tree, cases))
    # CORS switched off with configured origins: the header list is built differently
    env = [(k, v) for k, v in S.DEFAULT_ENV if not k.startswith('RWS_CONFIG_CORS')] + [
        ('RWS_CONFIG_CORS_ALLOW_ALL', 'false'), ('RWS_CONFIG_CORS_ALLOW_ORIGINS', 'http://a,http://b'), ('RWS_CONFIG_CORS_ALLOW_CREDENTIALS', 'true'),
        ('RWS_CONFIG_CORS_ALLOW_HEADERS', 'X-A,Vary'), ('RWS_CONFIG_CORS_ALLOW_METHODS', 'GET,PUT'), ('RWS_CONFIG_CORS_EXPOSE_HEADERS', 'Cache-Control'),
        ('RWS_CONFIG_CORS_MAX_AGE', '5')]
    # ---- the input classes of vlib/gen_c10.py, one harness process per family (they run side by side)
    # (vlib.common.Rng is SplitMix64 started at seed*gamma: neighbouring seeds give the SAME stream shifted by one draw, and the first
    #  data-dependent number of draws lines them up - after c04.build the state is the same for seeds 1, 2 and 3.  The families below
    #  draw from a fork of the fresh seed state (a hash of it), so they do differ from seed to seed)
    xr = C.Rng(seed).fork('gen_c10')
    own = []
    def batch(f, *a):
        t = X.shape_tree(xr, tier)
        own.append((t, f(xr, tier, t, *a)))
    for f in (X.route_matrix, X.request_lines, X.client_profiles, X.semantic_values, X.cors_matrix, X.range_shapes, X.form_paths, X.injected_lines, X.framing_relations, X.error_paths, X.long_values, X.histories):
        batch(f)
    batch(X.random_mix, 1500 if tier == 'quick' else 40000)
    if tier != 'quick':
        for _ in range(3): batch(X.random_mix, 40000)
    for variant in range(4):     # the served directory holds the names the server itself looks for
        t = X.pages_tree(xr, variant)
        own.append((t, X.route_matrix(xr, 'thorough' if tier != 'quick' or variant == 0 else 'quick', t, kind='own-pages')))
    # ---- second audit pass: relations between two inputs, and what was asked before (a fork of its own: the families above keep their inputs)
    yr = C.Rng(seed).fork('gen_c10/2')
    for f in (X.connection_relations, X.body_relations, X.header_relations, X.histories2, X.transports2):
        t = X.shape_tree(yr, tier)
        own.append((t, f(yr, tier, t)))
    for _ in range(1 if tier == 'quick' else 3):
        t = X.neighbour_tree(yr, tier)
        own.append((t, X.negotiation_neighbours(yr, tier, t)))
    for variant in range(3):     # ... and pages named after the other statuses
        t = X.error_pages_tree(yr, variant)
        own.append((t, X.error_pages_cases(yr, tier, t)))
    batches += own
    # ---- configurations: each is process state of the harness, so each gets its own run; all runs side by side
    import threading
    groups = [('', None, batches)]
    for label, pairs in X.env_variants(tier):
        t = X.shape_tree(xr, tier)
        groups.append((label, pairs, [(t, X.env_cases(xr, tier, t))]))
    t = X.shape_tree(xr, tier)
    groups.append(('configured', env, [(t, X.env_cases(xr, tier, t))]))
    # another configured address: what a request says about the server (Host, Origin, absolute targets, proxy headers) x what the configuration says
    t = X.shape_tree(yr, tier)
    groups.append(('address-other', [(k, {'RWS_CONFIG_IP': '::', 'RWS_CONFIG_PORT': '443', 'RWS_CONFIG_THREAD_COUNT': '1'}.get(k, v)) for k, v in S.DEFAULT_ENV], [(t, X.header_relations(yr, tier, t))]))
    # a request buffer of exactly the first request, for the entry point that takes its size from the configuration: what follows is read by a second read only
    t = X.shape_tree(yr, tier)
    groups.append(('buffer-256', [(k, ('256' if k.endswith('ALLOCATION_SIZE_IN_BYTES') else v)) for k, v in S.DEFAULT_ENV], [(t, X.connection_relations(yr, tier, t, pad_to=256))]))
    # the 500 answers: the server's own files exist and cannot be read (real code only: the model has no such file)
    groups.append((NO_MODEL, None, [(t, X.unreadable_cases(yr, tier, t)) for t in [X.unreadable_tree(yr, v) for v in ((0, 1, 2) if tier == 'quick' else range(6))]]))
    out = [None] * len(groups)
    def work(i):
        try: out[i] = K.run_batches(groups[i][2], with_model=WITH_MODEL and groups[i][0] != NO_MODEL, env=groups[i][1])
        except Exception as ex: out[i] = ex
    ths = [threading.Thread(target=work, args=(i,)) for i in range(len(groups))]
    # the echo pass: follow-ups built from the answers of the same process (validators of a cache, bounds of a resumed download)
    echo = {}
    def echo_work(label, pairs):
        try:
            t = X.shape_tree(yr, tier)
            echo[label] = (t, X.run_echo(t, X.echo_first(yr, tier, t), lambda c, r: X.echo_followups(yr, tier, t, c, r), env=pairs, with_model=WITH_MODEL))
        except Exception as ex: echo[label] = (None, ex)
    eth = threading.Thread(target=lambda: [echo_work(l, p) for l, p in ([('', None)] + ([('configured', env)] if tier != 'quick' else []))])
    for th in ths + [eth]: th.start()
    for th in ths + [eth]: th.join()
    # the status-class stream once more under the configured list (same tree: after the default run has finished with it)
    groups.append(('configured', env, [(tree, cases[:400] + cases[540:700])]))
    out.append(K.run_batches(groups[-1][2], with_model=WITH_MODEL, env=env))
    for label, (t, got) in echo.items():
        groups.append((label, None, [(t, None)] if t is not None else [])); out.append(got)
    results = []
    for (label, pairs, bs), got in zip(groups, out):
        if isinstance(got, Exception): raise got
        judge(res, got, label)
        results += got[:2] if not results else []
        for tr, _ in bs:
            if not getattr(tr, 'setup_ok', True): res.notes.append(f'tree setup failed for a batch (env {label or "default"})')
    res.rule = ('every response of the C04 campaign (mutated/malformed/oversized requests, failing handlers) and of the C05 campaign, plus 9 methods x '
                '10 targets x 6 header sets on both entry points (200, 204, 206, 400, 404, 416 paths), requests carrying each header name the server source mentions (three spellings) and all client hints at once, with CORS allow-all on and off; '
                'plus the families of vlib/gen_c10.py: every route and tree name (one file per media type, sizes 0..70001, directory and link shapes incl. the 500 path, served directories holding the server\'s own page names) x 9 methods x 4 entry points '
                '(Server::process, Server::process_request, App::execute, App::handle_request), request-line spellings (method/version case, 4+ versions, both line ends, blanks), browser/tool/proxy header profiles, '
                'meaningful values of 88 request headers, Origin x preflight shapes, range shapes (1..200 ranges), every accept/reject branch of the four built-in endpoints, server-made 400s (non-origin-form targets x methods, '
                'failing handlers x methods x messages, read errors, request buffers 0..100000), head sizes up to 9.5 KB, request histories, random compositions; under 6 (quick) / 16 configurations of the CORS switch, lists and buffer size; '
                'oracle also reads responses with an unregistered status and the bytes returned by the legacy entry point; distinct = (entry, request, handler, transport, buffer, configuration); '
                'second pass: what follows the first request on the stream x Connection / version x request buffer (every response on the wire is judged, not the first), Accept-Encoding / Accept / Accept-Language x files that have '
                'the neighbour a negotiating server would pick (sidecars valid / empty / larger / older / alone, image formats, language variants), integrity / content-coding / chunked / charset headers x the body they describe, '
                'header pairs (fetch metadata, proxy scheme x Upgrade-Insecure-Requests x Host, method override x method, Host x version, Origin x Host, Accept x every error answer, early data x unsafe methods, poor-network hints, '
                'Upgrade x Connection, conditional pairs), 150 more header names / values, histories per route (cache, negative cache, limiter, ban list, session), a failing transport on every kind of answer, pages named after every status, '
                'and follow-ups built from the answers of the same process (file age in every date spelling, one second around it, declared length as range bounds, validators echoed)')
    for c, r, il, ml in results[:2]:
        res.sample({'entry': c.entry, 'request': c.raw[:80].decode('latin1'), 'headers': [h for h in (K.parse_resp(r['recv'])[0] or {'headers': []})['headers']][:6]})
