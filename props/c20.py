"""C20 — library parsers report errors instead of panicking.

Every parsing entry point of the library is run, on a thread created the way the server creates
its workers (named, DEFAULT 2 MiB stack, harness op `w`), on structure-aware mutations of valid
documents of its format — truncation at every position, byte flips, non-ASCII and non-UTF-8
bytes, duplicated delimiters, deletions, very long lines, deep nesting — and on random bytes.

Correspondence: the OUTCOME CLASS `ok | err | panic <site> | abort | hang` of the real code is
compared with the class the executable Lean model computes (the parsed values themselves are
compared by the checks of C03 C12 C14 C15 C16 C17 C18 C19; for the entry points only this slice
drives — Content-Disposition, Header, UrlPath, legacy readers — the full result line is compared).
Oracle on the implementation alone: any `panic`, `abort` (stack overflow kills the process) or
`hang` (no answer within the watchdog time) is a violation, signature `panic:<site>` /
`abort:<entry>` / `hang:<entry>`.

Generator audit (vlib/gen_c20.py, audit/C20/AUDIT.md): on top of the random mutations every small valid document is mutated
EXHAUSTIVELY in one step (every prefix, suffix, single-byte deletion, delimiter doubled / exchanged, a multi-byte character at every
position, every line-end style), every format has a list of hand-enumerated boundary documents (values that are exactly one
delimiter, bodies of 0..3 bytes, every row of the method / version / status / configuration-key tables read from the source, ...),
and the ops with two inputs are driven over the RELATION of the two (file length x range, body x boundary, path x pattern,
parameter map x pattern).  All typed array readers, the Range header reader, get_uri_path and percent_decode are entry points too."""
import os
from vlib import limits as LIM
from vlib import common as C
from props import c19 as J
from vlib import gen_c20 as G

TRUSTED = ['Rust std as modelled in the component models (from_utf8, trim/White_Space, split, read_until, integer parsing, char::is_control)',
           'harness op `w`: worker-like thread (thread::Builder, name, default stack size) + watchdog',
           'panic-site capture of the harness (panic hook: file:line relative to src/, dependency crates as <crate-dir>/<file>:<line>)']
ASSUMPTIONS = ['protocol glue: hex fields; a text argument (&str / String) that is not UTF-8 cannot be passed in Rust: both sides answer badutf8',
               'termination is observed as "answers within 20 s"; quadratic-time entry points (Base64::decode, nested JSON objects) are given inputs they finish in that time',
               'stack depth is observed on a 2 MiB thread with the harness build profile (opt-level 1); every recursion per input unit found by reading the code was removed by a fix: commit']

hx = C.hx
HANG_SIG, ABORT_SIG = 'hang:', 'abort:'

# ------------------------------------------------------------------ valid documents per format
REQS = [b'GET / HTTP/1.1\r\nHost: x\r\n\r\n',
        b'POST /form?a=b HTTP/1.1\r\nHost: localhost:7878\r\nContent-Type: application/x-www-form-urlencoded\r\nContent-Length: 7\r\n\r\nk=v&x=y',
        b'OPTIONS /p HTTP/1.0\r\nOrigin: https://a.example\r\nAccess-Control-Request-Method: PUT\r\nRange: bytes=0-4, 7-\r\n\r\n']
PART = b'--String_separator\r\nContent-Type: text/plain\r\nContent-Range: bytes 0-1/2\r\n\r\nab\r\n'
MPBODY = PART + b'--String_separator\r\nContent-Type:  image/png\r\nContent-Range:  bytes 2-5/10\r\n\r\n\x89PNG\r\n' + b'--String_separator'
RESPS = [b'HTTP/1.1 200 OK\r\nContent-Type: text/plain\r\nContent-Length: 3\r\n\r\nabc',
         b'HTTP/1.1 206 Partial Content\r\nContent-Type: text/html\r\nContent-Range: bytes 2-5/10\r\nContent-Length: 4\r\n\r\ncdef',
         b'HTTP/1.1 206 Partial Content\r\nX: y\r\nContent-Type: multipart/byteranges; boundary=String_separator\r\n\r\n' + MPBODY,
         b'HTTP/1.1 404 Not Found\r\n\r\n']
FORM_B = b'bnd-1'
FORMS = [b'--bnd-1\r\nContent-Disposition: form-data; name="a"\r\n\r\nvalue\r\n--bnd-1\r\nContent-Disposition: form-data; name="f"; filename="x.txt"\r\nContent-Type: text/plain\r\n\r\nline1\r\nline2\r\n--bnd-1--\r\n',
         b'bnd-1\r\nContent-Disposition: form-data; name="a"\r\n\r\nv\r\nbnd-1']
JOBJ = [b'{\r\n  "a": 1,\r\n  "b": "x y",\r\n  "c": [1,2],\r\n  "d": {\r\n  "e": true\r\n},\r\n  "f": null,\r\n  "g": -1.5\r\n}', b'{"k": "v"}', b'{}',
        b'{"a": {"b": {"c": [1, [2, {"d": null}]]}}, "e": "\\"q\\""}']
# since the JSON scanners read whole UTF-8 characters (F24d) and skip brackets inside strings (F24f): documents whose strings and names hold 2-, 3-
# and 4-byte characters and brackets at every nesting position - every truncation cuts a multi-byte sequence at every byte (answered badutf8:
# a Rust String cannot hold it), every mutation puts a foreign byte next to / into one
JOBJ += ['{\r\n  "é": "€\U0001F600",\r\n  "b": {\r\n  "c}": "]é{"\r\n},\r\n  "d": ["]","[\U0001F600"]\r\n}'.encode(), '{"a": "é"}'.encode(), '{"k": {"b": "}"}}'.encode(),
         '{"\U0001F600": [{"x": "]"}, "€"], "z": "\u00a0"}'.encode(), '{"a": ٣}'.encode()]
JARR = [b'[1,2,3]', b'["a","b c"]', b'[true,false]', b'[null,null]', b'[1.5,-2e3]', b'[-1,0,255]', b'[[1],[2,[3]]]', b'[{"a": 1},{"b": [2]}]', b'[]']
JARR += ['["é","€","\U0001F600"]'.encode(), '[["]"],{"a": "}"}]'.encode(), '[{"é": "]\U0001F600"},["[€"]]'.encode(), '\u00a0["a"]\u3000'.encode(), '[٣,½]'.encode()]
JPROP = [b'"a": 1', b'"key": "value"', b'"o": {"x": 1}', b'"l": [1,2]', b'"n": null', b'"t": true', b'"f": -1.25e-3']
JPROP += ['"é": "€"'.encode(), '"k": {"b": "}\U0001F600"}'.encode(), '"l": ["]","é"]'.encode()]
B64 = [b'', b'QQ==', b'QUI=', b'QUJD', b'QUJDRA==', b'SGVsbG8sIFdvcmxkIQ==', b'AAECAwQFBgcICQ==', b'+/+/']
HDRS = [b'Content-Type: text/plain', b'Host: localhost:7878\r\n', b'X-Custom :  a: b: c ', b'Content-Disposition: form-data; name="a"', b'a:b']
CDS = [b'form-data; name="a"; filename="b.txt"', b'inline', b'attachment; filename="x y.pdf"', b'form-data; name="field"', b'attachment',
       b'form-data; filename="f"; name="n"', b'form-data;name=a']
RANGES = [b'0-4', b'-3', b'2-', b'0-0', b' 1 - 2 ', b'9-9']
RANGEHDRS = [b'bytes=0-4', b'bytes=0-1,3-4', b'bytes=-2', b'bytes=5-']
CRS = [b'bytes 0-4/10', b'bytes 2-5/10', b' BYTES 0-0/1 ', b'bytes -1-5/6']
CONFIGS = [b'ip = "127.0.0.1"\nport = 7878\nthread_count = 4\n\n[cors]\nallow_all = false\nallow_origins = ["https://a.example", \'b\'] # list\nmax_age = 86400\n',
           b'# comment\r\nport=1\r\n[ cors ]\r\n\tallow_credentials\t= true\r\n', b'request_allocation_size_in_bytes = 10000']
PATTERNS = [b'/some/path/[[id]]', b'/some/[[id]]/another/[[name]]', b'[[name]]/somename/[[number]]/somenumber', b'/static', b'[[a]]', b'']
PATHS = [b'/some/path/1234', b'/some/1234/another/asd', b'SomeName/somename/12345/somenumber', b'/static', b'x', b'']
URLS = [b'http://user:pw@host.example:80/p/a?x=1&y=2#frag', b'https://h/', b'http://localhost/a/b?c=d', b'http://h:7878', b'ftp://u@h/p#f', b'http://[::1]:8080/x']
QUERIES = [b'a=b&c=d%20e', b'k=v', b'x=1&x=2&y=', b'a%3Db=c%26d']
STATUSLINES = [b'HTTP/1.1 200 OK\r\n', b'HTTP/1.0 404 Not Found', b'http/2.0 206 partial content\r\n']
REQLINES = [b'GET / HTTP/1.1\r\n', b'post /a?b=c http/1.0', b'  OPTIONS * HTTP/2.0  ']
CTS = [b'multipart/form-data; boundary=abc', b'multipart/form-data; boundary="q-1"', b'multipart/byteranges; boundary=String_separator']

# ------------------------------------------------------------------ entry points
# (entry, format name, builder: bytes -> protocol line (without the `w `), valid documents, delimiters of the format, is_text)
def one(op): return lambda b: f'{op} {hx(b)}'
ENTRIES = []
def entry(name, fmt, build, docs, delims, text=False, full=False, scale=1.0):
    # scale: share of the per-entry budget of random mutations (the readers that differ from a fully driven one only in a type get less)
    ENTRIES.append(dict(name=name, fmt=fmt, build=build, docs=docs, delims=delims, text=text, full=full, scale=scale))

entry('Request::parse', 'request', one('reqparse'), REQS, b'\r\n: /')
entry('Request::parse_method_and_request_uri_and_http_version_string', 'request', one('reqline'), REQLINES, b' /\r\n', text=True)
entry('Request::parse_http_request_header_string', 'header', one('reqhdr'), HDRS, b': \r\n', text=True)
entry('Response::parse', 'response', one('respparse'), RESPS, b'\r\n: -/;=')
entry('Response::_parse_response', 'response', one('respparse_'), RESPS, b'\r\n: -/;=', full=True)
entry('Response::_parse_http_version_status_code_reason_phrase_string', 'response', one('respstatus'), STATUSLINES, b' /\r\n', text=True)
entry('Response::parse_http_response_header_string', 'header', one('resphdr'), HDRS, b': \r\n', text=True)
entry('Response::_parse_http_response_header_string', 'header', one('resphdr_'), HDRS, b': \r\n', text=True, full=True)
entry('Range::parse_multipart_body_with_boundary', 'byteranges', lambda b: f'respmp {hx(b)} {hx("String_separator")}', [MPBODY, PART + b'--String_separator'], b'\r\n: -/')
entry('Range::parse_multipart_body', 'byteranges', one('rmpbody'), [MPBODY, PART + b'--String_separator\r\n'], b'\r\n: -/', full=True)
entry('Range::_parse_multipart_body', 'byteranges', one('rmpbody_'), [MPBODY, PART + b'--String_separator\r\n'], b'\r\n: -/', full=True)
entry('Range::_parse_content_range_header_value', 'content-range', one('respcr'), CRS, b' -/', text=True)
entry('Range::_parse_raw_content_range_header_value', 'content-range', one('crraw'), CRS, b' -/', text=True, full=True)
entry('Range::_convert_bytes_array_to_string', 'utf-8', one('rconv_'), ['aé€😀z'.encode(), 'Content-Range: bytes 0-1/2 ü'.encode(), b'\xed\x9f\xbf\xee\x80\x80\xf4\x8f\xbf\xbf\xe0\xa0\x80\xf0\x90\x80\x80'], b'\xc2\xe0\xed\xf0\xf4\x80\xa0\xbf\xc0\xf5\xff', full=True)
entry('Range::parse_range_in_content_range', 'range', lambda b: f'rangeparse 10 {hx(b)}', RANGES, b'- ,=', text=True)
# the Range header value (unit, `=`, comma separated specs) against a file of ten bytes in the private directory of the harness
entry('Range::parse_content_range', 'range', lambda b: f'rangehdr {hx(b"0123456789")} 10 {hx(b)}', RANGEHDRS, b'- ,=', text=True, scale=0.5)
entry('FormMultipartData::parse', 'multipart', lambda b: f'mpparse {hx(b)} {hx(FORM_B)}', FORMS, b'\r\n-:;="')
entry('FormMultipartData::parse(boundary)', 'multipart', lambda b: f'mpparse {hx(FORMS[0])} {hx(b)}', [FORM_B, b'x', b'----WebKitFormBoundary7MA4YWxk'], b'-', text=True)
entry('FormMultipartData::extract_boundary', 'content-type', one('mpboundary'), CTS, b';="', text=True)
entry('FormUrlEncoded::parse', 'query', one('formparse'), QUERIES, b'&=%+')
entry('Header::parse', 'header', one('hdrparse'), HDRS, b': \r\n', text=True, full=True)
entry('ContentDisposition::parse', 'content-disposition', one('cdparse'), CDS, b';="  ', text=True, full=True)
entry('Base64::decode', 'base64', one('b64dec'), B64, b'=+/', text=True)
entry('JSON::parse_as_properties', 'json', one('jobjparse'), JOBJ, b'{}[]",: \r\n\\-.', text=True)
# the single-character read of both JSON scanners (json::read_utf8_char + String::from_utf8) on ARBITRARY bytes: the text entry points above can
# only be given well-formed UTF-8 (a Rust String), this one sees truncated sequences, a lead byte at the very end, overlong forms, lone continuation bytes
entry('json::read_utf8_char', 'utf-8', one('jreadchars'), ['aé€😀z'.encode(), '{"é": "€}", "k": ["😀]"]}'.encode(), b'\xed\x9f\xbf\xee\x80\x80\xf4\x8f\xbf\xbf\xe0\xa0\x80\xf0\x90\x80\x80', '["é"]'.encode(), 'é'.encode(), '😀'.encode()],
      b'\xc2\xe0\xed\xf0\xf4\x80\xa0\xbf\xc0\xf5\xff', full=True)
entry('JSONProperty::parse', 'json', one('jprop'), JPROP, b'{}[]",: \\-.', text=True)
entry('RawUnprocessedJSONArray::split_into_vector_of_strings', 'json', one('jsplit'), JARR, b'{}[]",: \\-.', text=True)
for _t in ('i128', 'i8', 'u64', 'u8', 'bool', 'string', 'null', 'f64', 'f32'):
    entry(f'JSONArrayOf*::parse_as_list_{_t}', 'json', one('jlist_' + _t), JARR, b'{}[]",: \\-.', text=True)
for _t in ('i64', 'i32', 'i16', 'u128', 'u32', 'u16'):      # every typed reader is an entry point of its own (a copy of the same loop)
    entry(f'JSONArrayOf*::parse_as_list_{_t}', 'json', one('jlist_' + _t), JARR, b'{}[]",: \\-.', text=True, scale=0.25)
entry('read_config_file', 'config', one('cfgfileb'), CONFIGS, b'=[]#"\' \t\r\n_', full=True)
entry('UrlPath::extract_parts_from_pattern', 'url-path', one('uppattern'), PATTERNS, b'[]/', text=True, full=True)
entry('UrlPath::is_matching(pattern)', 'url-path', lambda b: f'upmatch {hx(PATHS[1])} {hx(b)}', PATTERNS, b'[]/', text=True, full=True)
entry('UrlPath::is_matching(path)', 'url-path', lambda b: f'upmatch {hx(b)} {hx(PATTERNS[1])}', PATHS, b'[]/', text=True, full=True)
entry('UrlPath::extract(pattern)', 'url-path', lambda b: f'upextract {hx(PATHS[2])} {hx(b)}', PATTERNS, b'[]/', text=True, full=True)
entry('UrlPath::extract(path)', 'url-path', lambda b: f'upextract {hx(b)} {hx(PATTERNS[2])}', PATHS, b'[]/', text=True, full=True)
# coherent (path, pattern) pairs in one document `path NUL pattern`: static pieces and token values with ASCII and non-ASCII text
def _pairs():
    r = C.Rng(20)
    stat = ['/', '/a/', '/some/path/', '-', '.json', 'é', '/ü/', '€x', 'x€', '/😀/', 'ab']
    vals = ['1', '1234', 'SomeName', '', 'é', 'aé', 'éa', '漢字', 'x-y', '😀', 'a.b']
    names = ['id', 'name', 'n', 'ключ', 'k1']
    out = []
    for k in range(40):
        n = r.range(1, 5)
        path, pat = '', ''
        tok = r.chance(1, 2)
        for j in range(n):
            if tok:
                pat += '[[' + r.choice(names) + ']]'; path += r.choice(vals)
            else:
                t = r.choice(stat); pat += t; path += t
            tok = not tok
        out.append(path.encode() + b'\x00' + pat.encode())
    return out
PAIRS = _pairs()
def _pair(op):
    def build(b):
        path, _, pat = b.partition(b'\x00')
        return f'{op} {hx(path)} {hx(pat)}'
    return build
entry('UrlPath::is_matching(path, pattern)', 'url-path-pair', _pair('upmatch'), PAIRS, b'[]/\x00', text=True, full=True)
entry('UrlPath::extract(path, pattern)', 'url-path-pair', _pair('upextract'), PAIRS, b'[]/\x00', text=True, full=True)
entry('UrlPath::build', 'url-path', lambda b: f'upbuild {hx("id")}:{hx("7")},{hx("name")}:{hx("n/é")} {hx(b)}', PATTERNS, b'[]/', text=True, full=True)
entry('URL::parse', 'url', one('urlparse'), URLS, b':/?#@&=[]', text=True)
entry('URL::parse_query', 'query', one('qparse'), QUERIES, b'&=%+', text=True)
entry('Request::get_uri_query', 'url', one('requery'), [b'/p?a=b&c=d', b'/form-get-method?k=v#f', b'/'], b'/?#&=%', text=True)
entry('Request::get_uri_path', 'url', one('repath'), [b'/p?a=b&c=d', b'/form-get-method?k=v#f', b'/', b'/a/b/c.html'], b'/?#&=%:@', text=True, scale=0.5)
entry('URL::percent_decode', 'query', one('qdec'), QUERIES + [b'%E2%82%AC', b'a+b%20c'], b'&=%+', text=True, scale=0.5)

NONASCII = ['é', 'ß', 'Ł', 'я', '€', '漢', '\U0001F600', ' ', ' ', '　', '\u0085', 'ſ', 'K']
BADBYTES = [0x80, 0xBF, 0xC0, 0xC3, 0xE2, 0xED, 0xF0, 0xF5, 0xFF, 0x00, 0x7F, 0x0B, 0x1F]

def is_utf8(b):
    try: b.decode('utf-8'); return True
    except UnicodeDecodeError: return False

def mutations(rng, b, delims, n_random, every_truncation, text):
    """structure-aware mutations of the valid document b: (kind, bytes)"""
    out = []
    if every_truncation: out += [('truncation', b[:i]) for i in range(len(b))]
    else: out += [('truncation', b[:rng.range(0, len(b))]) for _ in range(8)]
    dpos = [i for i, c in enumerate(b) if c in delims]
    for _ in range(n_random):
        k = rng.below(13)
        p = rng.range(0, max(0, len(b) - 1))
        if k == 0 and b: out.append(('bit flip', b[:p] + bytes([b[p] ^ (1 << rng.below(8))]) + b[p + 1:]))
        elif k == 1: out.append(('non-ASCII', b[:p] + rng.choice(NONASCII).encode() + b[p:]))
        elif k == 2: out.append(('non-UTF-8 / control byte', b[:p] + bytes([rng.choice(BADBYTES)]) + b[p:]))
        elif k == 3 and dpos:
            q = rng.choice(dpos); out.append(('duplicated delimiter', b[:q] + b[q:q + 1] * rng.range(2, 4) + b[q + 1:]))
        elif k == 4 and delims: out.append(('inserted delimiter', b[:p] + bytes([rng.choice(delims)]) + b[p:]))
        elif k == 5 and b: out.append(('deletion', b[:p] + b[p + 1:]))
        elif k == 6 and b:
            q = rng.range(0, len(b) - 1); lo, hi = min(p, q), max(p, q); out.append(('deletion', b[:lo] + b[hi:]))
        elif k == 7: out.append(('duplicated tail', b[:p] + b[p:] + b[p:]))
        elif k == 8 and dpos:
            q = rng.choice(dpos); out.append(('deleted delimiter', b[:q] + b[q + 1:]))
        elif k == 9 and b: out.append(('byte replaced', b[:p] + bytes([rng.below(256)]) + b[p + 1:]))
        elif k == 10 and len(b) > 1:
            q = rng.range(0, len(b) - 1); lo, hi = min(p, q), max(p, q); out.append(('swapped pieces', b[:lo] + b[hi:] + b[lo:hi]))
        elif k == 11:
            from vlib import vocab as VOC
            out.append(('token of the source vocabulary respelled', VOC.respell(rng, b)))
        else: out.append(('random bytes inserted', b[:p] + rng.bytes(rng.range(1, 4)) + b[p:]))
    return out

# entry points whose MODEL (written by other slices) is quadratic in the number of lines / parts / trimmed blanks: the full-size inputs
# are judged on the implementation alone, the model is compared on a reduced copy of the same shapes
SLOW_MODEL = {'Response::parse', 'Range::parse_multipart_body_with_boundary', 'Header::parse'}

def long_and_deep(e, n, big):
    """very long lines (`big` bytes) and `n` repeated units / nesting levels for the format of entry e"""
    f = e['fmt']
    out = []
    d0 = e['docs'][0]
    if f in ('request', 'response') and e['name'] in ('Request::parse', 'Response::parse', 'Response::_parse_response'):
        first = d0.split(b'\r\n')[0] + b'\r\n'
        out += [first + b'a: b\r\n' * n + b'\r\nxyz', first + b'Content-Type: text/plain\r\n' + b'a: b\r\n' * n + b'\r\nxyz',
                first + b'X: ' + b'v' * big + b'\r\n\r\n', first + b'N' * big + b': v\r\n\r\n', d0 + b'z' * big, b'G' * big, first * 50 + b'\r\n']
    if f == 'response' and e['name'].startswith('Response::') and 'parse' in e['name'] and 'string' not in e['name']:
        head = b'HTTP/1.1 206 Partial Content\r\nContent-Type: multipart/byteranges; boundary=String_separator\r\n\r\n'
        out += [head + PART * n + b'--String_separator', head + b'--String_separator\r\n' + b'\r\n' * n, head + b'--String_separator\r\n' * n,
                head + PART[:-4] + b'x' * big, head + PART[:-4] + b'x\r\n' * n]
    if f == 'byteranges':
        out += [PART * n + b'--String_separator', b'\r\n' * n, b'--String_separator\r\n' * n, PART[:-4] + b'x' * big, PART[:-4] + b'x\r\n' * n,
                b'Content-Type: a\r\n' * n, b'-' * big]
    if f == 'multipart' and 'boundary' not in e['name']:
        p = b'--bnd-1\r\nContent-Disposition: form-data; name="a"\r\n\r\nx\r\n'
        out += [p * n + b'--bnd-1--\r\n', b'--bnd-1\r\n' + b'H: v\r\n' * n + b'\r\nx\r\n--bnd-1--\r\n', b'--bnd-1\r\n\r\n' + b'line\r\n' * n + b'--bnd-1--\r\n',
                b'--bnd-1\r\nA: ' + b'v' * big + b'\r\n\r\nx\r\n--bnd-1--\r\n', b'--bnd-1\r\n\r\n' + b'x' * big, b'-' * big]
    if f == 'multipart' and 'boundary' in e['name']:
        out += [b'b' * big, b'-' * 20000]
    if f == 'json':
        out += [x for x in J.pathological('quick') if len(x) > 1000]
    if f == 'base64':
        out += [b'QUJD' * ((big * 6 // 10) // 4), b'=' * (big * 4 // 10), b'Q' * (big * 4 // 10 + 1)]
    if f in ('header', 'content-disposition', 'content-type', 'content-range', 'range'):
        out += [d0 + b' ' * big, b' ' * big + d0, d0.replace(b':', b':' * n) if b':' in d0 else d0 + b';' * n, d0 + b';x=y' * n, d0 + b'"' * big,
                d0 + '　'.encode() * (big // 4), b'-' * n, b'1' * big + b'-2', d0 + b',0-1' * n]
    if f == 'config':
        out += [b'port = 1\n' * n, b'k = ' + b' ' * big + b'v\n', b'k =' + b'\t' * big, b'[' * n, b'[a]\n' * n, b'k = ' + b'v' * big + b'\n', b'#' * big, b'=' * n, b'a_b' * n + b' = 1\n', b'x = [' + b'"a", ' * n + b']\n']
    if f == 'url-path':
        out += [b'[[a]]/' * n, b'/x' * n, b'[' * n, b']' * n, b'[[' + b'k' * big + b']]', b'/' + b's' * big, b'[[a]]' + b'/' * n]
    if f == 'url':
        out += [b'http://h/' + b'a/' * n, b'http://h/?' + b'a=b&' * n, b'http://' + b'h' * big + b'/', b'http://h/#' + b'f' * big, b'http://' + b'u:p@' * n + b'h/', b':' * n, b'/' * n]
    if f == 'query':
        out += [b'a=b&' * n, b'=' * n, b'&' * n, b'%' * n, b'k=' + b'v' * big, b'%25' * n]
    return out

def cls(out):
    """outcome class of a result line"""
    w = out.split(' ', 2)
    if w[0] == 'panic': return 'panic ' + (w[1] if len(w) > 1 else 'unknown')
    if w[0] in ('ok', 'err', 'badutf8', 'abort', 'hang', 'none', 'generr', 'nonascii'): return w[0]
    return 'other:' + out[:40]

def norm_full(out):
    return out

def run(res, tier, seed):
    rng = C.Rng(seed)
    quick = tier == 'quick'
    per_entry_full = per_entry = 2000 if quick else 100000
    lines, meta = [], []     # meta: (entry index, kind)
    nomodel = set()
    seen = set()
    def add(i, kind, b, nomodel_=False, **kw):
        e = ENTRIES[i]
        ln = e['build'](b)
        if ln in seen: return          # the systematic families overlap with the random ones
        seen.add(ln)
        if kw.get('nomodel') or nomodel_: nomodel.add(len(lines))
        lines.append(ln); meta.append((i, kind))
    for i, e in enumerate(ENTRIES):
        r = rng.fork(e['name'])
        n0 = len(lines)
        docs = e['docs']
        per_entry = max(200, int(per_entry_full * e['scale']))
        for d in docs: add(i, 'valid', d)
        small = sorted(docs, key=len)[:4 if quick else len(docs)]
        # truncation at EVERY position of a few small valid documents (all of them in the thorough tier)
        for d in docs:
            every = (d in small and len(d) <= 400) or not quick
            budget = max(20, (per_entry // 2) // len(docs) - (len(d) if every else 8))
            for kind, m in mutations(r, d, e['delims'], budget, every, e['text']):
                add(i, kind, m)
        # generator audit (audit/C20): exhaustive one-step mutations of every SMALL valid document (not only of the four shortest), every
        # line-end style of every document, and the hand-enumerated boundary documents of the format (vlib/gen_c20.py)
        for d in docs:
            for kind, m in G.systematic(d, e['delims'], e['text'], 64 if quick else 400): add(i, kind, m)
            for kind, m in G.line_ends(d): add(i, kind, m)
        bdocs = G.docs_for(e['name'], e['fmt'])
        for kind, m in bdocs: add(i, kind, m)
        if not quick:
            for _, d in bdocs:
                for kind, m in G.systematic(d, e['delims'], e['text'], 48): add(i, kind + ' of a boundary document', m)
                for kind, m in G.line_ends(d): add(i, kind + ' of a boundary document', m)
        if bdocs:
            for _ in range(per_entry // 8):
                d = r.choice(bdocs)[1]
                if len(d) > 2000: continue
                ms = mutations(r, d, e['delims'], 1, False, e['text'])
                add(i, 'mutated boundary document', ms[-1][1])
        # every number of a valid document at and around every machine-integer limit (a length that sizes an allocation, a bound that is added to)
        for d in docs[:3 if quick else len(docs)]:
            subs = LIM.substitute(d)
            if quick and len(subs) > 700: subs = [subs[k] for k in sorted({r.below(len(subs)) for _ in range(700)})]
            for m in subs: add(i, 'number at a machine limit', m)
        # second-order mutations
        for _ in range(per_entry // 10):
            d = r.choice(docs)
            for _k in range(r.range(2, 4)):
                ms = mutations(r, d, e['delims'], 1, False, e['text'])
                d = ms[-1][1]
            add(i, 'mutated twice or more', d)
        # random bytes / random text over the format's alphabet
        alpha = bytes(set(e['delims'] + b''.join(docs)[:200]))
        nrand = max(0, per_entry - (len(lines) - n0)) if not quick else max(100, per_entry - (len(lines) - n0))
        for k in range(nrand):
            n = r.range(0, 40) if k % 8 else r.range(40, 600)
            if k % 3 == 0: b = r.bytes(n)
            elif k % 3 == 1: b = bytes(r.choice(alpha) for _ in range(n))
            else: b = ''.join(r.choice(NONASCII) if r.chance(1, 6) else chr(r.choice(alpha)) for _ in range(n)).encode('utf-8', 'ignore')
            add(i, 'random bytes' if k % 3 == 0 else 'random over the format alphabet', b)
        n_units, big = (12000, 100000) if quick else (50000, 100000)
        slow = e['name'] in SLOW_MODEL
        for b in long_and_deep(e, n_units, big):
            add(i, 'long line / deep nesting / many units', b, nomodel=slow)
        if slow:
            for b in long_and_deep(e, 400, 3000):
                add(i, 'long line / deep nesting / many units (reduced)', b)

    # regression inputs of the defects repaired by this slice's fix: commits (they must now be answered with a value or an error)
    part_nosep = b'--String_separator\r\nContent-Type: text/plain\r\nContent-Range: bytes 0-1/2\r\n\r\nab\r\n'
    regress = [
        ('uppattern ' + hx('a]]]'), 'err', 'F26a'), ('upmatch ' + hx('x') + ' ' + hx('a]]b]]'), 'err', 'F26b'),
        ('upextract ' + hx('ab') + ' ' + hx('a[[b'), 'err', 'F26c'), ('upextract ' + hx('/other') + ' ' + hx('/some/[[id]]'), 'err', 'F26d'),
        ('rmpbody ' + hx(part_nosep.replace(b'Content-Range:', b'Content-Range')), 'err', 'F60'),
        ('rmpbody ' + hx(part_nosep), 'err', 'F61'), ('rmpbody_ ' + hx(part_nosep), 'err', 'F61'),
        ('rmpbody ' + hx(part_nosep * 2 + b'\xff\n'), 'err', 'F62'), ('rmpbody_ ' + hx(b'\xff\n'), 'err', 'F62'),
        ('rmpbody ' + hx(PART * 20000 + b'--String_separator'), 'ok', 'F62'), ('rmpbody_ ' + hx(PART * 20000 + b'--String_separator'), 'ok', 'F62'),
        ('respparse ' + hx(b'HTTP/1.1 200 OK\r\n' + b'a: b\r\n' * 20000 + b'\r\nxyz'), 'ok', 'F63'),
        ('respparse ' + hx(b'HTTP/1.1 206 Partial Content\r\nContent-Type: multipart/byteranges; boundary=String_separator\r\n\r\n' + PART * 20000 + b'--String_separator'), 'ok', 'F64'),
        ('respparse ' + hx(b'HTTP/1.1 206 Partial Content\r\nContent-Type: multipart/byteranges; boundary=String_separator\r\n\r\n--String_separator\r\n' + b'\r\n' * 20000), 'ok', 'F64'),
        ('resphdr_ ' + hx('abc'), 'ok', 'F65'), ('respparse_ ' + hx(b'HTTP/1.1 200 OK\r\nA\xff: x\r\n\r\n'), 'ok', 'F66'),
        ('respparse_ ' + hx(b'HTTP/1.1 200 OK\r\n\r\n'), 'ok', 'F67'), ('respparse_ ' + hx(b'HTTP/1.1 200 OK\r\nContent-Length: x\r\n\r\n'), 'ok', 'F68'),
        ('respparse_ ' + hx(b'HTTP/1.1 200 OK\r\n' + b'a: b\r\n' * 20000 + b'Content-Type: text/plain\r\n\r\nxyz'), 'ok', 'F69'),
        ('cfgfileb ' + hx(b'port = 1\n\xff\n'), 'err', 'F70'), ('rconv_ ff', 'ok', 'F73'), ('cfgfileb ' + hx(b'port = "1\x00"\n'), 'err', 'F72'), ('cfgfileb ' + hx(b'ip = 1\n[a\x00]\nb = 2\n'), 'err', 'F72'), ('rconv_ e28241f09f98', 'ok', 'F73'),
    ]
    # generator audit: the ops with more than one input - relations between the inputs (file length x range, body x boundary, path x pattern, map x pattern)
    by_name = {e['name']: k for k, e in enumerate(ENTRIES)}
    raw_full = set()
    for name, kind, ln, full in G.raw_lines(rng.fork('raw'), quick):
        if ln in seen: continue
        seen.add(ln)
        if full: raw_full.add(len(lines))
        lines.append(ln); meta.append((by_name[name], kind))
    nreg0 = len(lines)
    for ln, _, _ in regress:
        if ln.startswith('respparse ') and len(ln) > 100000: nomodel.add(len(lines))     # model of C15 is quadratic in lines / parts
        lines.append(ln); meta.append((None, 'regression case of a repaired defect'))
    # witnesses of the open findings
    opens = ['urlparse ' + hx('http://h:x/')]
    for ln in opens:
        lines.append(ln); meta.append((None, 'witness of an open finding'))

    impl_lines = ['w ' + l for l in lines]
    out = {}
    import threading
    t1 = threading.Thread(target=lambda: out.__setitem__('i', C.run_impl(impl_lines)))
    model_idx = [k for k in range(len(lines)) if k not in nomodel]
    t2 = threading.Thread(target=lambda: out.__setitem__('m', C.run_model([lines[k] for k in model_idx])))
    t1.start(); t2.start(); t1.join(); t2.join()
    impl = out['i']
    try:
        from props import c03 as _c03      # the private directory the `rangehdr` op of the harness works in
        _c03._cleanup()
    except Exception: pass
    model = [None] * len(lines)
    for k, b in zip(model_idx, out['m']): model[k] = b

    # correspondence: outcome class everywhere, the full line for the entry points only this slice drives
    cl, ci, cm = [], [], []
    for k, (ln, (i, kind), a, b) in enumerate(zip(lines, meta, impl, model)):
        if b is None:
            res.evaluations += 1      # judged by the oracle below, not compared
            continue
        full = (i is None) or ENTRIES[i]['full'] or k in raw_full
        cl.append(ln); ci.append(a if full else cls(a)); cm.append(b if full else cls(b))
    C.compare(res, cl, ci, cm, 'parser outcome class', nontrivial=lambda ln, a: not a.startswith('badutf8'))
    res.notes.append(f'{len(nomodel)} full-size long/deep inputs of {sorted(SLOW_MODEL)} were judged on the implementation only (model quadratic); reduced copies compared on both sides')

    # oracle on the implementation alone
    for ln, (i, kind), a in zip(lines, meta, impl):
        name = ENTRIES[i]['name'] if i is not None else ln.split(' ')[0]
        c = cls(a)
        res.count(f'{name} | {kind} | {c.split(" ")[0]}')
        short = ln if len(ln) <= 600 else ln[:600] + f'…({len(ln)} chars)'
        if c.startswith('panic'):
            res.fail('panic:' + c[6:], 'w ' + ln if len(ln) <= 20000 else short, a, None, f'{name} panicked at {c[6:]}')
        elif c == 'abort':
            res.fail(ABORT_SIG + name, 'w ' + ln if len(ln) <= 2000000 else short, a, None, f'{name} killed the process (stack overflow on a 2 MiB worker stack, or abort)')
        elif c == 'hang':
            res.fail(HANG_SIG + name, 'w ' + ln if len(ln) <= 2000000 else short, a, None, f'{name} did not answer within the watchdog time')
        elif c.startswith('other') or a == 'bad-op':
            res.fail('harness-protocol', short, a[:100], None, 'unexpected result line')
    for (ln, want, fid), a in zip(regress, impl[nreg0:]):
        if cls(a) != want:
            res.fail('regression:' + fid + ':' + ln.split(' ')[0], ln if len(ln) < 3000 else ln[:600], a[:200], None,
                     f'a repaired defect ({fid}) is back: expected class {want}')

    n_entries = len(ENTRIES)
    res.rule = (f'{n_entries} entry points; per entry point: every valid document, truncation at every position of the small documents, '
                'bit flips, non-ASCII scalars (White_Space ones included), non-UTF-8 and control bytes, duplicated / inserted / deleted delimiters, '
                'deletions, duplicated tails, swapped pieces, 2-4 stacked mutations, random bytes and random text over the alphabet of the format, '
                'exhaustive one-step mutations and line-end styles of the small documents, hand-enumerated boundary documents per format with the rows of the '
                'tables of the source, two-input relations (file length x range, body x boundary, path x pattern, map x pattern) '
                f'(~{per_entry} inputs per entry point), plus very long lines (100 KB) and 12 000-50 000 repeated units / nesting levels on a 2 MiB stack; '
                'a case is non-trivial when the input could be passed to the Rust function at all (a text argument that is not UTF-8 cannot); distinct = distinct protocol lines')
    res.exhaustive = None
    for k in (5, len(lines) // 3, len(lines) // 2, nreg0 + 1):
        res.sample({'op': 'w ' + lines[k][:200], 'implementation': impl[k][:200], 'model': (model[k] or '(not run)')[:200]})
    res.extra['entry_points'] = [e['name'] for e in ENTRIES]

def replay(rp):
    case = rp.get('case') or (rp.get('correspondence') or {}).get('case')
    if not case:
        print('replay file names no case (broken obligation only):', rp.get('broken')); return 1
    ml = case[2:] if case.startswith('w ') else case
    il = case if case.startswith('w ') else 'w ' + case
    a = C.run_impl([il])[0]; b = C.run_model([ml])[0]
    print('case          :', case[:300]); print('implementation:', a[:300]); print('model         :', b[:300])
    bad = cls(a).startswith('panic') or cls(a) in ('abort', 'hang')
    return 1 if (bad or cls(a) != cls(b)) else 0
