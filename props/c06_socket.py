"""C06 (connection part) — histories of connections against the REAL binary on a loopback
socket, followed by the capacity probe: N-1 connections held open and idle (each keeps one
worker in `read`), and an N-th valid request that must still be answered.
Connection kinds: valid request, every known fault-provoking request (regression corpus of the
C04 findings), early close, reset (RST) before sending, bursts of connections reset while still in the listen queue (server stopped with SIGSTOP meanwhile), reset right after sending, half-sent
request then close, an upload cut short inside its announced body (then FIN or close), oversized request.  Oracle on the implementation alone: the server process is
alive after the history, valid requests in the history are answered, and the probe is answered."""
import os, socket, struct, time, tempfile, shutil, threading
from vlib import common as C, realbin as RB

VALID = b'GET /f.txt HTTP/1.1\r\nHost: x\r\n\r\n'
FAULTY = [b'GET x HTTP/1.1\r\n\r\n', b'GET * HTTP/1.1\r\n\r\n', b'GET http://a/b HTTP/1.1\r\n\r\n', b'PUT : HTTP/1.1\r\n\r\n',
          b'GET / HTTP/1.1\r\nContent-Length: a\r\n\r\n', b'GET /f.txt HTTP/1.1\r\nRange: bytes=-999\r\n\r\n',
          b'GET / HTTP/1.1\r\n' + b'a\n' * 4000,
          b'POST /form-url-encoded-enctype-post-method HTTP/1.1\r\nContent-Type: application/x-www-form-urlencoded\r\n\r\n\xff\xfe',
          b'POST /form-multipart-enctype-post-method HTTP/1.1\r\nContent-Type: multipart/form-data; boundary=B\r\n\r\n--B\r\nContent-Disposition: inline\r\n\r\nv\r\n--B--\r\n',
          b'POST /form-multipart-enctype-post-method HTTP/1.1\r\nContent-Type: multipart/form-data; boundary=B\r\n\r\n' + b'--B\r\nContent-Disposition: form-data; name="a"\r\n\r\n\r\n' * 150 + b'--B--\r\n',
          b'\xff\xfe\x00', b'', b'GET /../../etc/passwd HTTP/1.1\r\n\r\n', b'OPTIONS * HTTP/1.1\r\n\r\n',
          b'GET /f.txt HTTP/1.1\r\nRange: bytes=18446744073709551615-\r\n\r\n', b'HEAD /f.txt HTTP/9.9\r\n\r\n']
KINDS = ['valid', 'faulty', 'early-close', 'rst-before', 'rst-after', 'half-sent', 'oversized', 'oversized-malformed', 'rst-before-accept', 'body-cut-short']

def _conn(port, timeout=5):
    s = socket.create_connection(('127.0.0.1', port), timeout=timeout)
    return s

def _rst(s):
    s.setsockopt(socket.SOL_SOCKET, socket.SO_LINGER, struct.pack('ii', 1, 0))
    s.close()

def one(server, kind, rng):
    """returns (answered: bytes|None, note)"""
    try:
        if kind == 'valid':
            return server.request(VALID, timeout=10), ''
        if kind == 'faulty':
            r = rng.choice(FAULTY)
            try: return server.request(r, timeout=10), ''
            except Exception as e: return None, f'faulty request got no answer: {type(e).__name__} {r[:40]!r}'
        if kind == 'rst-before-accept':
            # a burst of connections that are reset while they still wait in the listen queue: the server process is stopped (SIGSTOP),
            # the kernel completes the handshakes, the resets arrive, the process continues and accept() hands over sockets whose
            # peer is already gone (peer_addr fails) - the branch of the accept loop no ordinary client reaches
            import signal
            k = rng.choice([8, 20, 40, 100])
            server.proc.send_signal(signal.SIGSTOP)
            try:
                for _ in range(k):
                    try: _rst(_conn(server.port, timeout=1))
                    except OSError: break
            finally:
                server.proc.send_signal(signal.SIGCONT)
            time.sleep(0.05)
            return b'', ''
        s = _conn(server.port)
        if kind == 'early-close': s.close()
        elif kind == 'rst-before': _rst(s)
        elif kind == 'rst-after': s.sendall(VALID); _rst(s)
        elif kind == 'half-sent': s.sendall(b'GET /f.t'); s.close()
        elif kind == 'body-cut-short':
            # an upload that ends before the body it announced: complete head, Content-Length larger than what follows, then FIN (or close)
            n = rng.choice([50, 500, 5000])
            s.sendall(b'POST /form-url-encoded-enctype-post-method HTTP/1.1\r\nHost: x\r\nContent-Type: application/x-www-form-urlencoded\r\nContent-Length: %d\r\n\r\n' % n + b'a=1&b=' + b'x' * rng.choice([0, 3, 20]))
            try:
                if rng.chance(1, 2):
                    s.shutdown(socket.SHUT_WR); s.settimeout(2); s.recv(65536)
            except OSError: pass
            s.close()
        elif kind == 'oversized-malformed':
            # an unparsable request that fills the request buffer, a little more, then an orderly close (FIN)
            try:
                s.sendall(b'\xfe' * rng.choice([10000, 10001, 12000, 19999])); s.shutdown(socket.SHUT_WR); s.settimeout(5); s.recv(65536)
            except OSError: pass
            s.close()
        elif kind == 'oversized':
            try: s.sendall(b'GET /f.txt HTTP/1.1\r\nX: ' + b'a' * 60000 + b'\r\n\r\n'); s.settimeout(5); s.recv(65536)
            except OSError: pass
            s.close()
        return b'', ''
    except OSError as e:
        return None, f'{kind}: {type(e).__name__}: {e}'

def probe(server, n, timeout=8):
    """N-1 idle connections, then one valid request; True iff answered 200"""
    idle = []
    try:
        for _ in range(n - 1):
            idle.append(_conn(server.port))
        time.sleep(0.05)
        try: r = server.request(VALID, timeout=timeout)
        except Exception as e: return False, f'{type(e).__name__}: {e}'
        return r.startswith(b'HTTP/1.1 200'), r[:40]
    finally:
        for s in idle:
            try: s.close()
            except OSError: pass

def run_part(res, rng, tier):
    ok, out = RB.build()
    if not ok:
        res.disagree('cargo build --release', out[-300:], None, 'real-binary-build'); return
    nhist = 10 if tier == 'quick' else 120
    base = tempfile.mkdtemp(prefix='rwsc06-')
    try:
        open(os.path.join(base, 'f.txt'), 'wb').write(b'hello')
        for h in range(nhist):
            n = rng.choice([1, 2, 3, 4, 8])
            length = rng.range(1, 40) if (tier == 'quick' or rng.chance(1, 2)) else rng.range(40, 400)
            hist = [rng.choice(KINDS) if rng.chance(3, 4) else 'faulty' for _ in range(length)]
            if rng.chance(1, 3): hist += ['faulty'] * n            # a burst of N fault-provoking connections at the end
            if h < 3: n = (1, 2, 4)[h]; hist = ['valid'] + ['rst-before-accept'] * 4 + hist[:10] + ['valid']   # several hundred connections reset in the listen queue
            if 3 <= h < 5: n = (1, 3)[h - 3]; hist = ['valid'] + ['body-cut-short'] * (n + 1) + hist[:8] + ['valid']   # more cut-short uploads than workers
            with RB.Server(base, threads=n, capture_stdout=False) as srv:
                unanswered = []
                for k in hist:
                    r, note = one(srv, k, rng)
                    res.evaluations += 1
                    res.count('connection ' + k)
                    if k == 'valid' and not (r or b'').startswith(b'HTTP/1.1 200'):
                        unanswered.append((k, note or (r or b'')[:30]))
                    if k == 'faulty' and r is None: unanswered.append((k, note))
                alive = srv.alive()
                okp, info = probe(srv, n) if alive else (False, 'server process ended: ' + str(srv.stop()))
                res.count(f'history N={n} len={"<=40" if len(hist) <= 40 else ">40"}')
                res.distinct.add(hash((n, tuple(hist))))
                if not alive:
                    res.fail('server-died', {'mode': 'socket', 'N': n, 'history': hist}, info, None, f'C06: the server process ended during a history of {len(hist)} connections')
                elif not okp:
                    res.fail('capacity-lost', {'mode': 'socket', 'N': n, 'history': hist}, str(info), None,
                             f'C06: after a history of {len(hist)} connections an {n}-worker server no longer serves {n} simultaneous connections (N-1 idle + 1 request: no answer)')
                if unanswered:
                    res.fail('unanswered-in-history', {'mode': 'socket', 'N': n, 'history': hist}, str(unanswered[:3]), None,
                             'C06: a request inside the history got no answer')
        res.sample({'socket_history': hist[:12], 'N': n, 'probe_answered': okp})
    finally:
        shutil.rmtree(base, ignore_errors=True)
