"""C06 (connection part) — histories of connections against the REAL binary on a loopback
socket, followed by the capacity probe: N-1 connections held open and idle (each keeps one
worker in `read`), and an N-th valid request that must still be answered.
Connection kinds: valid request, every known fault-provoking request (regression corpus of the
C04 findings), early close, reset (RST) before sending, bursts of connections reset while still in the listen queue (server stopped with SIGSTOP meanwhile), reset right after sending, half-sent
request then close, an upload cut short inside its announced body (then FIN or close), oversized request; and the kinds of
vlib/gen_c06.py (generator audit): the valid request from a client that keeps its sending side open, other valid requests, an
8 MiB answer read completely or abandoned while it is being written (write error at any byte), stalls, requests in several
segments, requests cut at every place of the head, Content-Length in every relation to the body, requests of exactly the size of
the request buffer (also on servers with another buffer size), pipelined requests, bursts of simultaneous connections, idle
connections held open while other connections are made (a sub-history through one worker), more connections than the process
may have descriptors (accept() fails), probes in the middle of the history.  History shapes: the old random ones, mixed ones,
the SAME kind more than 16 times per worker followed by a probe, descriptor limit, held connections and bursts.
Oracle on the implementation alone: the server process is alive after the history, valid requests in the history are answered
(GET /f.txt: 200 and the five bytes of the file), the probe is answered (client half-closing or not; twice in every fourth
history), and after the probe every request of a table of valid requests is answered as a FRESH server answers the same bytes
(Date line apart; form echoes as a multiset of lines) - the answer to a valid request does not depend on the history.
Second audit pass (audit/C06/AUDIT2.md, `histories2`): what a FEATURE added on this path would hinge on - requests with the headers it
would read, conversations after the head (keep-alive, Expect, chunked, upgrades, PROXY protocol), variants of a request before / after the
plain request for the same file, files that change, simultaneous requests, slow readers, storms, connections in the BACKGROUND of a whole
history (a reader that does not read, idle, half-sent ...).  These histories run on PARALLEL servers at a time, each with its own PRNG stream."""
import os, socket, struct, time, tempfile, shutil, threading
from vlib import common as C, realbin as RB, gen_c06 as G

VALID = b'GET /f.txt HTTP/1.1\r\nHost: x\r\n\r\n'
FAULTY = [b'GET x HTTP/1.1\r\n\r\n', b'GET * HTTP/1.1\r\n\r\n', b'GET http://a/b HTTP/1.1\r\n\r\n', b'PUT : HTTP/1.1\r\n\r\n',
          b'GET / HTTP/1.1\r\nContent-Length: a\r\n\r\n', b'GET /f.txt HTTP/1.1\r\nRange: bytes=-999\r\n\r\n',
          b'GET / HTTP/1.1\r\n' + b'a\n' * 4000,
          b'POST /form-url-encoded-enctype-post-method HTTP/1.1\r\nContent-Type: application/x-www-form-urlencoded\r\n\r\n\xff\xfe',
          b'POST /form-multipart-enctype-post-method HTTP/1.1\r\nContent-Type: multipart/form-data; boundary=B\r\n\r\n--B\r\nContent-Disposition: inline\r\n\r\nv\r\n--B--\r\n',
          b'POST /form-multipart-enctype-post-method HTTP/1.1\r\nContent-Type: multipart/form-data; boundary=B\r\n\r\n' + b'--B\r\nContent-Disposition: form-data; name="a"\r\n\r\n\r\n' * 150 + b'--B--\r\n',
          b'\xff\xfe\x00', b'', b'GET /../../etc/passwd HTTP/1.1\r\n\r\n', b'OPTIONS * HTTP/1.1\r\n\r\n',
          b'GET /f.txt HTTP/1.1\r\nRange: bytes=18446744073709551615-\r\n\r\n', b'HEAD /f.txt HTTP/9.9\r\n\r\n']
# unusual but legal requests that have to be ANSWERED (whatever the status): targets and header values longer than any fixed cut a handler
# or a logger may apply (100, 128, 255, 256, 512, 1024, 4096 bytes) made of multi-byte characters, in three alignments - for every
# cut one of the alignments puts it INSIDE a character
def _odd_table():
    out = []
    for L in (300, 1100, 4200):
        for shift in range(3):
            two, three = ('a' * shift + '\u0436' * (L // 2)).encode(), ('a' * shift + '\u76ee' * (L // 3)).encode()
            out.append(b'GET /' + two + b' HTTP/1.1\r\nHost: x\r\n\r\n')
            out.append(b'GET /f.txt?q=' + three + b' HTTP/1.1\r\nHost: x\r\n\r\n')
            out.append(b'GET /f.txt HTTP/1.1\r\nHost: x\r\nX-Long: ' + two + b'\r\nReferer: http://x/' + three + b'\r\n\r\n')
    # special files of the document root (vlib/gen_c06.py write_docroot): every way of naming a named pipe, and a device behind a link
    for t in (b'/pipe.txt', b'/pipelnk.txt', b'/pipepage', b'/pipepage.html', b'/pd/', b'/pd', b'/pd/index.html', b'/null.txt'):
        out.append(b'GET ' + t + b' HTTP/1.1\r\nHost: x\r\n\r\n')
        out.append(b'HEAD ' + t + b' HTTP/1.1\r\nHost: x\r\nRange: bytes=0-1\r\n\r\n')
    return out
ODD = _odd_table()
_odd_next = [0]
KINDS = ['valid', 'faulty', 'odd', 'early-close', 'rst-before', 'rst-after', 'half-sent', 'oversized', 'oversized-malformed', 'rst-before-accept', 'body-cut-short']

def _conn(port, timeout=5):
    s = socket.create_connection(('127.0.0.1', port), timeout=timeout)
    return s

def _rst(s):
    s.setsockopt(socket.SOL_SOCKET, socket.SO_LINGER, struct.pack('ii', 1, 0))
    s.close()

def one(server, kind, rng):
    """returns (answered: bytes|None, note)"""
    try:
        if kind == 'valid':
            return server.request(VALID, timeout=10), ''
        if kind == 'faulty':
            r = rng.choice(FAULTY)
            try: return server.request(r, timeout=10), ''
            except Exception as e: return None, f'faulty request got no answer: {type(e).__name__} {r[:40]!r}'
        if kind == 'odd':
            r = ODD[_odd_next[0] % len(ODD)]; _odd_next[0] += 1
            try: return server.request(r, timeout=10), ''
            except Exception as e: return None, f'unusual but legal request got no answer: {type(e).__name__} {r[:60]!r} ({len(r)} bytes)'
        if kind == 'rst-before-accept':
            # a burst of connections that are reset while they still wait in the listen queue: the server process is stopped (SIGSTOP),
            # the kernel completes the handshakes, the resets arrive, the process continues and accept() hands over sockets whose
            # peer is already gone (peer_addr fails) - the branch of the accept loop no ordinary client reaches
            import signal
            k = rng.choice([8, 20, 40, 100])
            server.proc.send_signal(signal.SIGSTOP)
            try:
                for _ in range(k):
                    try: _rst(_conn(server.port, timeout=1))
                    except OSError: break
            finally:
                server.proc.send_signal(signal.SIGCONT)
            time.sleep(0.01)
            return b'', ''
        s = _conn(server.port)
        if kind == 'early-close': s.close()
        elif kind == 'rst-before': _rst(s)
        elif kind == 'rst-after': s.sendall(VALID); _rst(s)
        elif kind == 'half-sent': s.sendall(b'GET /f.t'); s.close()
        elif kind == 'body-cut-short':
            # an upload that ends before the body it announced: complete head, Content-Length larger than what follows, then FIN (or close)
            n = rng.choice([50, 500, 5000])
            s.sendall(b'POST /form-url-encoded-enctype-post-method HTTP/1.1\r\nHost: x\r\nContent-Type: application/x-www-form-urlencoded\r\nContent-Length: %d\r\n\r\n' % n + b'a=1&b=' + b'x' * rng.choice([0, 3, 20]))
            try:
                if rng.chance(1, 2):
                    s.shutdown(socket.SHUT_WR); s.settimeout(2); s.recv(65536)
            except OSError: pass
            s.close()
        elif kind == 'oversized-malformed':
            # an unparsable request that fills the request buffer, a little more, then an orderly close (FIN)
            try:
                s.sendall(b'\xfe' * rng.choice([10000, 10001, 12000, 19999])); s.shutdown(socket.SHUT_WR); s.settimeout(5); s.recv(65536)
            except OSError: pass
            s.close()
        elif kind == 'oversized':
            try: s.sendall(b'GET /f.txt HTTP/1.1\r\nX: ' + b'a' * 60000 + b'\r\n\r\n'); s.settimeout(5); s.recv(65536)
            except OSError: pass
            s.close()
        return b'', ''
    except OSError as e:
        return None, f'{kind}: {type(e).__name__}: {e}'

def probe(server, n, timeout=8, half_close=True, pause=0.05):
    """N-1 idle connections, then one valid request (from a client that half-closes after sending, or one that does not);
    True iff answered 200"""
    idle = []
    try:
        for _ in range(n - 1):
            idle.append(_conn(server.port))
        time.sleep(pause)        # not needed for the verdict (the pool hands connections out in the order they were accepted): a courtesy under load
        try: r = server.request(VALID, timeout=timeout, half_close=half_close)
        except Exception as e: return False, f'{type(e).__name__}: {e}'
        return r.startswith(b'HTTP/1.1 200'), r[:40]
    finally:
        for s in idle:
            try: s.close()
            except OSError: pass

def _old_history(rng, tier, h, quick_len=True):
    """the histories this check has always made (kinds of KINDS; their variants are drawn while they run)"""
    n = rng.choice([1, 2, 3, 4, 8])
    length = rng.range(1, 40) if (quick_len or rng.chance(1, 2)) else rng.range(40, 400)
    hist = [rng.choice(KINDS) if rng.chance(3, 4) else 'faulty' for _ in range(length)]
    if rng.chance(1, 3): hist += ['faulty'] * n            # a burst of N fault-provoking connections at the end
    if h < 3: n = (1, 2, 4)[h]; hist = ['valid'] + ['rst-before-accept'] * 4 + hist[:10] + ['valid']   # several hundred connections reset in the listen queue
    if 3 <= h < 5: n = (1, 3)[h - 3]; hist = ['valid'] + ['body-cut-short'] * (n + 1) + hist[:8] + ['valid']   # more cut-short uploads than workers
    return dict(n=n, hist=hist, label='old kinds')

def histories(rng, tier):
    """every history of the run: dict(n, hist, alloc, nofile, label).  New kinds (vlib/gen_c06.py) are written kind/variant."""
    quick = tier == 'quick'
    out = []
    for h in range(10 if quick else 120):
        out.append(_old_history(rng, tier, h, quick_len=quick))
    # every unusual-but-legal request once, on one and on three workers, valid requests in between and at the end
    for n in ((1, 3) if quick else (1, 2, 3, 4, 8)):
        out.append(dict(n=n, hist=['valid'] + ['odd', 'odd', 'odd', 'valid'] * (len(ODD) // 3 + 1), label='unusual but legal requests'))
    allk = KINDS + G.NEW_KINDS
    def elem(k, n, quick_stall=False):
        return G.pick_variant(k, rng, n, quick_stall) if k in G.NEW_KINDS else k
    # mixed histories: old and new kinds, some on a server with another request buffer size
    for h in range(3 if quick else 80):
        n = rng.choice([1, 2, 3, 4, 8])
        length = rng.range(5, 25) if quick else rng.range(5, 40) if rng.chance(2, 3) else rng.range(40, 300)
        alloc = rng.choice([1000, 4096, 65536]) if h % 3 == 2 else None
        out.append(dict(n=n, hist=['valid'] + [elem(rng.choice(allk), n, quick) for _ in range(length)], alloc=alloc,
                        label='mixed kinds' + (' (other buffer size)' if alloc else '')))
    # the SAME thing again and again, more often than 16 per worker (what a leak with a threshold needs), then a probe at once.
    # quick: three servers, each gets a third of the kinds one after the other (one variant each); thorough: one server per kind and variant
    slow = ('rst-before-accept', 'burst', 'valid-big', 'probe', 'hold', 'stall', 'split')
    if quick:
        order = list(allk); rng.shuffle(order)
        for part in range(3):
            n = (1, 1, 2)[part]
            hist = []
            for k in order[part::3]:
                e = elem(k, n, True)
                hist += [e] * (4 if (k in slow or e.startswith('big-abandon/stall')) else 17 * n + 3) + ['probe']
            out.append(dict(n=n, hist=hist, label='one kind repeated'))
    else:
        for k in allk:
            for rep in range(4):
                n = rng.choice([2, 3]) if k in ('hold', 'burst', 'probe') else rng.choice([1, 1, 2])
                e = elem(k, n, True)
                reps = 6 if (k in slow[:5] or e.startswith('big-abandon/stall')) else 17 * n + 3
                out.append(dict(n=n, hist=[e] * reps, label='one kind repeated'))
    # accept() itself fails for a while: more connections than the process may have descriptors
    for h in range(1 if quick else 12):
        n = 2 if quick else (1, 3)[h] if h < 2 else rng.choice([1, 2, 4, 8])
        limit = rng.choice([20, 24, 40]) + n
        hist = ['valid']
        for _ in range(2 if quick else rng.range(2, 5)):
            hist.append(G.pick_variant('emfile', rng, n))
            hist += [elem(rng.choice(allk), n, quick) for _ in range(rng.range(0, 3))]
            if rng.chance(1, 2): hist.append('valid-open')
        out.append(dict(n=n, hist=hist, nofile=limit, label='descriptor limit'))
    # a sub-history through ONE worker of N (the others are held by idle connections), and everything at once
    for h in range(2 if quick else 20):
        n = (2, 4, 8)[(h + rng.below(3)) % 3]
        hist = ['valid']
        for _ in range(2 if quick else rng.range(2, 6)):
            hist.append(f'hold/{n - 1}/{rng.choice([8, 20, 40])}/{rng.choice(["fwd", "rev"])}/{rng.below(1 << 16)}')
            hist.append(G.pick_variant(rng.choice(['burst', 'hold', 'probe']), rng, n))
        out.append(dict(n=n, hist=hist, label='held connections and bursts'))
    for hs in histories2(rng, tier):
        hs['par'] = True
        out.append(hs)
    return out

CORS_ARGS = ['--cors-allow-all=false', '--cors-allow-origins=http://a', '--cors-allow-methods=GET,PUT', '--cors-allow-headers=x-a', '--cors-allow-credentials=true', '--cors-max-age=5']

def histories2(rng, tier):
    """second audit pass (audit/C06/AUDIT2.md): requests with the headers a new feature would read, conversations (keep-alive, Expect, chunked,
    upgrades), variants of a request before / after the plain request for the same file, files that change, storms of one simple
    connection (also under a descriptor limit), histories with connections in the BACKGROUND (key `bg`: each occupies a worker)"""
    quick = tier == 'quick'
    out = []
    nz = len(G.ZOO)
    # (1) every request of the table once per run on one worker (quick: a third of them again on three); valid requests in between
    for h, n in enumerate((1, 3) if quick else (1, 2, 3, 4, 8)):
        order = list(range(nz))
        if h: rng.shuffle(order)
        if quick and h: order = order[:nz // 3]
        hist = ['valid']
        for k, i in enumerate(order):
            hist.append(f'zoo/{i}/{"fin" if (k + h) % 2 else "open"}')
            if k % 12 == 11: hist.append('valid' if k % 24 == 11 else 'valid-open')
        out.append(dict(n=n, hist=hist, label='requests with headers the server ignores so far'))
    if not quick:
        order = list(range(nz)); rng.shuffle(order)
        out.append(dict(n=2, hist=['valid'] + [f'zoo/{i}/fin' for i in order], args=CORS_ARGS, label='requests with headers the server ignores so far (other CORS configuration)'))
        out.append(dict(n=2, hist=['valid'] + [f'zoo/{i}/open' for i in order if len(G.ZOO[i][1]) < 3900], alloc=4096, label='requests with headers the server ignores so far (other buffer size)'))
    # (2) conversations
    kas = [f'keepalive/{r}/{a}' for r in sorted(G.KA_REQS) for a in G.KA_AFTER]
    talks = ['talk/' + t for t in sorted(G.TALKS)]
    for h, n in enumerate((1, 2) if quick else (1, 2, 3, 4, 8)):
        elems = kas + talks + ['slow-read/' + p for p in G.SLOW_PACES]
        rng.shuffle(elems)
        if quick and h: elems = elems[::2]
        hist = ['valid']
        for k, e in enumerate(elems):
            hist.append(e)
            if k % 15 == 14: hist.append('probe')
        out.append(dict(n=n, hist=hist, label='conversations: keep-alive, Expect, chunked, upgrades, slow readers'))
    # (3) the first request for a file on this server is a variant (or follows the plain one); files get other content
    for h, n in enumerate((1, 2) if quick else (1, 2, 3, 4, 8, 1, 2, 3)):
        idx = list(range(len(G.COLD))); rng.shuffle(idx)
        hist = []
        for k, i in enumerate(idx):
            hist.append(f'cold/{i}/{"vp" if (k + h) % 2 == 0 else "pv"}')
            if k % 6 == 5: hist.append(f'rewrite/{k % 4}/{G.REWRITE_HOW[(k // 6 + h) % 3]}')
            if k % 9 == 8: hist.append(f'create/{k % 4}')
        out.append(dict(n=n, hist=hist + ['valid'], label='variant of a request first, files that change'))
    # (4) storms: the same simple connection more often than any counter threshold below 2^8 (thorough: 2^10)
    kinds = list(G.STORM_KINDS); rng.shuffle(kinds)
    for h, n in enumerate((1,) if quick else (1, 2, 1)):
        hist = ['valid']
        for j, k in enumerate(kinds):
            cnt = (12 if k in G.STORM_HEAVY else 260 if j < 2 else 130) if quick else (40 if k in G.STORM_HEAVY else 1030 if h == 2 else 260)
            hist += [f'storm/{k}/{cnt}', 'probe']
        out.append(dict(n=n, hist=hist, label='storms of one kind of connection'))
    # (5) the same under a descriptor limit: whatever keeps ONE descriptor per connection on any path runs out of them
    for n in ((2,) if quick else (1, 2, 3, 4)):
        hist = ['valid']
        for k in kinds: hist += [f'storm/{k}/{8 if k in G.STORM_HEAVY else 45}', 'valid-open']
        hist += [G.pick_variant('keepalive', rng, n) for _ in range(45)] + ['probe'] + [G.pick_variant('talk', rng, n) for _ in range(45)] + ['probe']
        hist += [f'zoo/{rng.below(nz)}/fin' for _ in range(45)]
        out.append(dict(n=n, hist=hist, nofile=2 * n + 22, label='storms under a descriptor limit'))
    # (6) connections in the background of the whole history: each occupies one worker, the others must serve everything
    def bg_history(n, bg, length):
        free = n - len(bg)
        hist = ['valid', 'valid-big', 'valid-open']
        for _ in range(length):
            c = rng.below(12)
            if c == 0: hist.append('probe')
            elif c == 1: hist.append(f'hold/{free - 1}/{rng.choice([3, 8])}/{rng.choice(["fwd", "rev"])}/{rng.below(1 << 16)}')
            elif c == 2: hist.append(G.pick_variant('together', rng, free))
            elif c == 3: hist.append('valid-big' if rng.chance(1, 2) else 'slow-read/steady')
            elif c == 4: hist.append(G.pick_variant('zoo', rng, free))
            elif c == 5: hist.append(G.pick_variant(rng.choice(['keepalive', 'talk', 'head-cut', 'length']), rng, free))
            elif c == 6: hist.append(rng.choice(['faulty', 'early-close', 'rst-after', 'half-sent', 'body-cut-short', 'oversized-malformed']))
            elif c == 7: hist.append(G.pick_variant('valid-other', rng, free))
            elif c == 8: hist.append(G.pick_variant('cold', rng, free))
            else: hist.append(rng.choice(['valid', 'valid-open']))
        return hist + ['probe']
    if quick:
        shapes = [(2, ['reader:close'], 0), (3, ['idle:keep', 'reader:rst'], 0), (4, ['half:finish', 'reader:keep', 'expect:close'], 0)]
    else:
        shapes = [(2, ['reader:close'], 0), (2, ['reader:keep'], 0), (2, ['idle:finish'], 1200), (3, ['idle:keep', 'reader:rst'], 2500), (2, ['half:rst'], 5500), (2, ['ka:finish'], 5500)]
        for _ in range(24):
            n = rng.choice([2, 3, 4, 8])
            bg = [f'{rng.choice(G.BG_KINDS)}:{rng.choice(G.BG_ENDS)}' for _ in range(rng.range(1, n - 1))]
            shapes.append((n, bg, rng.choice([0, 0, 0, 0, 1200, 2500])))
    for n, bg, ms in shapes:
        hs = dict(n=n, hist=bg_history(n, bg, 12 if quick else rng.range(8, 40)), bg=bg, label='connections in the background')
        if ms: hs['bg_ms'] = ms
        out.append(hs)
    # (7) one element of the second pass again and again (more often than 16 per worker), then a probe at once
    for h in range(1 if quick else 12):
        n = 1 if quick else rng.choice([1, 1, 2])
        hist = []
        for k in (['keepalive'] * 3 + ['talk'] * 3 + ['zoo'] * 2 if quick else ['keepalive'] * 4 + ['talk'] * 4 + ['zoo'] * 3):
            e = G.pick_variant(k, rng, n)
            hist += [e] * (17 * n + 3) + ['probe']
        out.append(dict(n=n, hist=hist, label='one kind repeated (second pass)'))
    # (8) everything mixed
    allk = [k for k in KINDS if k != 'odd'] + G.NEW_KINDS + G.NEW_KINDS2 * 2       # 'odd' walks through its table with a counter of the run: not side by side
    for h in range(2 if quick else 60):
        n = rng.choice([1, 2, 3, 4, 8])
        length = rng.range(10, 25) if quick else rng.range(5, 40) if rng.chance(2, 3) else rng.range(40, 300)
        hist = [G.pick_variant(k, rng, n, quick) if k in G.NEW_KINDS + G.NEW_KINDS2 else k for k in (rng.choice(allk) for _ in range(length))]
        out.append(dict(n=n, hist=hist, label='mixed kinds (second pass)'))
    return out

def run_history(srv, hs, rng, ctx, res=None):
    """runs one history; returns the list of (element, what is wrong) for the elements whose answer the property demands"""
    unanswered = []
    for e in hs['hist']:
        kind = e.split('/')[0]
        if kind in KINDS:
            r, note = one(srv, e, rng)
            bad = None
            if kind == 'valid': bad = G.judge_answer('valid', r, ctx)
            elif kind in ('faulty', 'odd') and r is None: bad = note
        else:
            r, note = G.run_new(srv, e, ctx)
            bad = G.judge_answer(e, r, ctx) if kind in G.DEMANDED + G.SELF_JUDGED else None
            if bad and note: bad = f'{bad} ({note})'
        if res is not None:
            res.evaluations += 1
            res.count('connection ' + kind)
        if bad: unanswered.append((e, bad))
        if len(unanswered) >= 3 or not srv.alive(): break          # a broken tree: do not wait 10 s for every further element
    return unanswered

def after_zoo(index):
    """the requests of the second pass that are asked after history number `index` (a rotating part of the tables)"""
    return [(index * 7 + k * 41) % len(G.ZOO) for k in range(7)]

def after_history(srv, hs, ctx, index, kept=()):
    """the probe (twice in every fourth history; the client of the request half-closes or not), then every valid request
    once more: the answers must be those of a fresh server.  kept: background connections that are still open - each occupies
    a worker, the probe holds that many idle connections less"""
    n = hs['n'] - len(kept)
    pause = 0.02
    try:
        okp, info = probe(srv, n, half_close=(index % 2 == 0), pause=pause)
        if okp and index % 4 == 1:
            okp, info = probe(srv, n, half_close=True, pause=pause)
            if not okp: info = f'second probe: {info}'
        if not okp and kept: info = f'{info} (with {len(kept)} background connection(s) still open)'
    finally:
        for s in kept:
            try: s.close()
            except OSError: pass
    wrong = []
    if okp:
        elems = ['valid-open'] + [f'valid-other/{i}/{"fin" if (i + index) % 2 else "open"}' for i in range(len(G.VALIDS))]
        elems += [f'zoo/{i}/{"fin" if (i + index) % 2 else "open"}' for i in after_zoo(index)]
        elems += [f'cold/{(index * 2) % len(G.COLD)}/vp', f'cold/{(index * 2 + 1) % len(G.COLD)}/pv']
        if index % 4 == 0: elems.append('valid-big')
        asked = []
        for e in elems:
            r, note = G.run_new(srv, e, ctx)
            bad = G.judge_answer(e, r, ctx)
            if bad and not wrong: wrong.append(('asked after the probe, before the first wrong answer', asked[:]))     # one of these may be the cause
            if bad: wrong.append((e, f'{bad} ({note})' if note else bad))
            asked.append(e + (f' = {G.ZOO[int(e.split("/")[1])][0]}' if e.startswith('zoo/') else ''))
            if len(wrong) >= 4: break
    return okp, info, wrong

PARALLEL = 4         # histories of the second pass run on that many servers at a time (each has its own PRNG stream and result)

def ipv6_part(res, base):
    """the same server on an IPv6 address: its clients have addresses like `::1`, which look different wherever a peer address is printed,
    parsed or compared.  A few valid requests, each must be answered; then the capacity probe"""
    try:
        t = socket.socket(socket.AF_INET6); t.bind(('::1', 0)); t.close()
    except OSError as e:
        res.notes.append(f'no IPv6 loopback here ({e}): the IPv6 server was not run'); return
    reqs = [VALID, b'GET /no-such-file.txt HTTP/1.1\r\nHost: x\r\n\r\n', b'GET /f.txt HTTP/1.1\r\nHost: [::1]\r\nRange: bytes=1-3\r\n\r\n', b'GET x HTTP/1.1\r\n\r\n',
            b'POST /form-url-encoded-enctype-post-method HTTP/1.1\r\nHost: x\r\nContent-Type: application/x-www-form-urlencoded\r\nContent-Length: 3\r\n\r\na=1', VALID]
    try:
        with RB.Server(base, threads=2, ip='::1', capture_stdout=False) as srv:
            for r in reqs:
                res.evaluations += 1; res.count('connection over IPv6')
                err = 'the connection was closed without an answer'
                try: a = srv.request(r, timeout=10)
                except Exception as e: a = None; err = repr(e)     # noqa
                if not a or (r is VALID and (b' 200 ' not in a[:16] or not a.endswith(b'hello'))):
                    res.fail('unanswered-in-history:ipv6', {'mode': 'socket-ipv6', 'request': r[:80].decode('latin1')}, (a.decode('latin1') if a else err)[:160], None,
                             'C06: a valid request from a client with an IPv6 address was not answered correctly by the server listening on ::1')
                    break
            if not srv.alive():
                res.fail('server-terminated:ipv6', {'mode': 'socket-ipv6'}, srv.status, None, 'C06: the server listening on ::1 terminated')
    except RB.ServerError as e:
        res.fail('server-start:ipv6', {'mode': 'socket-ipv6'}, str(e)[:300], None, 'C06: the server does not start on --ip=::1')

def run_part(res, rng, tier, only=None):
    ok, out = RB.build()
    if not ok:
        res.disagree('cargo build --release', out[-300:], None, 'real-binary-build'); return
    base = tempfile.mkdtemp(prefix='rwsc06-')
    try:
        big_sha = G.write_docroot(base)
        if only is None: ipv6_part(res, base)
        hss = histories(rng, tier) if only is None else only
        have_prlimit = G.prlimit_wrap(20) is not None
        if not have_prlimit: res.notes.append('prlimit not found: the histories with a descriptor limit (accept() failing) were not run')
        st = dict(fresh={}, failing=0, last=None, lock=threading.Lock(), base=base, big_sha=big_sha, have_prlimit=have_prlimit, only=only)
        todo = list(enumerate(hss))
        first = [(i, hs) for i, hs in todo if only is not None or not hs.get('par')]
        second = [(i, hs) for i, hs in todo if only is None and hs.get('par')]
        second.reverse()          # the long ones (repeated, mixed, background) first: the short ones fill the gaps at the end
        for index, hs in first:
            _one_history(st, res, rng, index, hs)
        if second:
            parts = {}
            nxt = [0]
            forks = {index: rng.fork(f'history {index}') for index, _ in second}     # drawn here, in order: the streams do not depend on the threads
            def work():
                while True:
                    with st['lock']:
                        k = nxt[0]; nxt[0] += 1
                    if k >= len(second): return
                    index, hs = second[k]
                    parts[index] = r = C.Result(res.pid)
                    try: _one_history(st, r, forks[index], index, hs)
                    except Exception as e:                      # noqa: reported, not swallowed
                        r.fail('check-error', {'mode': 'socket', 'N': hs['n'], 'history': hs['hist'][:50]}, f'{type(e).__name__}: {e}', None, 'C06: the check itself failed on this history')
            ts = [threading.Thread(target=work, daemon=True) for _ in range(min(PARALLEL, len(second)))]
            for t in ts: t.start()
            for t in ts: t.join()
            for index in sorted(parts):
                r = parts[index]
                res.evaluations += r.evaluations
                for k, v in r.dist.items(): res.count(k, v)
                res.distinct |= r.distinct
                res.failures += r.failures
                res.disagreements += r.disagreements
                res.notes += [x for x in r.notes if x not in res.notes]
        if st['last'] is not None: res.sample(st['last'])
    finally:
        shutil.rmtree(base, ignore_errors=True)

def _one_history(st, res, rng, index, hs):
    base, big_sha, fresh, only = st['base'], st['big_sha'], st['fresh'], st['only']
    index = hs.get('position', index)          # a replayed history: the probe and the requests after it are made as they were made then
    n, hist, alloc, nofile = hs['n'], hs['hist'], hs.get('alloc'), hs.get('nofile')
    if nofile and not st['have_prlimit']: return
    if st['failing'] >= 5 and only is None:      # a broken tree (every unanswered request costs its 10 s): five failing histories say it
        res.count('history skipped after five failing histories'); return
    args, bg = hs.get('args') or [], hs.get('bg') or []
    fkey = (alloc, tuple(args))
    need = None if fkey == (None, ()) else ({int(e.split('/')[1]) for e in hist if e.startswith('zoo/')} | set(after_zoo(index)))
    with st['lock']:
        if fkey not in fresh: fresh[fkey] = G.fresh_answers(RB.Server, base, alloc, args, need)
        elif need: G.fresh_more(RB.Server, base, fresh[fkey], alloc, args, need)
    ctx = dict(n=n - len(bg), fresh=fresh[fkey], big_sha=big_sha, probe=probe, nofile=nofile, alloc=alloc)
    case = {'mode': 'socket', 'N': n, 'history': hist, 'position': index}
    if alloc: case['alloc'] = alloc
    if nofile: case['nofile'] = nofile
    if args: case['args'] = args
    if bg: case['background'] = bg
    if hs.get('bg_ms'): case['background_ms'] = hs['bg_ms']
    with RB.Server(base, threads=n, alloc=alloc, args=args, wrap=(G.prlimit_wrap(nofile) if nofile else None), capture_stdout=False) as srv:
        bgc, opened = G.bg_open(srv, bg)
        unanswered = run_history(srv, hs, rng, ctx, res)
        kept = G.bg_end(srv, bgc, bg, opened, hs.get('bg_ms', 0))
        alive = srv.alive()
        okp, info, wrong = after_history(srv, hs, ctx, index, kept) if alive else (False, 'server process ended: ' + str(srv.stop()), [])
        for s in kept:
            try: s.close()
            except OSError: pass
        res.count(f'history N={n} len={"<=40" if len(hist) <= 40 else ">40"}')
        res.count('history: ' + hs.get('label', ''))
        res.distinct.add(hash((n, tuple(hist), alloc, nofile, tuple(args), tuple(bg))))
        if not alive:
            res.fail('server-died', case, info, None, f'C06: the server process ended during a history of {len(hist)} connections')
        elif not okp:
            res.fail('capacity-lost', case, str(info), None,
                     f'C06: after a history of {len(hist)} connections an {n}-worker server no longer serves {n} simultaneous connections ({n - 1 - len(kept)} idle'
                     + (f' + {len(kept)} in the background' if kept else '') + ' + 1 request: no answer)')
        if unanswered:
            res.fail('unanswered-in-history', case, str(unanswered[:3]), None,
                     'C06: a valid request inside the history got no answer or a wrong one')
        if not alive or not okp or unanswered or wrong:
            with st['lock']: st['failing'] += 1
        if wrong:
            res.fail('wrong-answer-after-history', case, str(wrong[1:4] + wrong[:1]), None,
                     'C06: after the history a valid request is not answered as a fresh server answers it')
    st['last'] = {'socket_history': hist[:12], 'N': n, 'probe_answered': okp}
