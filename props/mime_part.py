"""Media-type part of C02 — "… labelled with the media type registered for its extension …".

Correspondence: MimeType::detect_mime_type / MimeType::get_extension_from_filename (real code, ops
`mimedetect` / `mimeext`) vs Rws.Mime.detect / Rws.Mime.extension (Lean model over the regenerated
rule table).  Oracle on the implementation alone, written independently of the model:
  * `mimeext`   == ref_extension(), a split-based re-statement of Unix `Path::extension`;
  * `mimedetect` of a path whose final component has a dot that is not its first byte
                == TABLE[bytes after the last dot] (an independent copy of the extension -> type table:
                MDN "Common MIME types" as far as known + a few RFC/IANA rows), default
                application/octet-stream; upper-case / dot-file / trailing-slash names are judged by
                the documented as-is rules below;
  * ext-only:   all dotted paths with the same final extension get the same type (no dependence on
                stem, directory, number of dots) — the sampled counterpart of C02_mime_ext_only.

Used by props/c02.py:   lines, meta = gen_lines(rng, tier);  impl, model = C.run_both(lines);
                        judge(res, lines, meta, impl, model)     # includes C.compare(...)
Standalone:             python3 props/mime_part.py [quick|thorough] [seed]
"""
import os, re, sys, itertools

if __name__ == '__main__':
    sys.path.insert(0, os.path.dirname(os.path.dirname(os.path.abspath(__file__))))
from vlib import common as C

DEFAULT = 'application/octet-stream'

# ----------------------------------------------------------------------------------------------
# INDEPENDENT copy of the expected table.  Source: MDN "Common MIME types" (written from memory, not
# from the Rust code).  Rows the code answers differently are NOT aligned here; they are listed in
# DEVIATIONS with the reason and reported (MIME_STRICT=1 turns each of them into a failure).
MDN = {
    'aac': 'audio/aac', 'abw': 'application/x-abiword', 'apng': 'image/apng', 'arc': 'application/x-freearc',
    'avif': 'image/avif', 'avi': 'video/x-msvideo', 'azw': 'application/vnd.amazon.ebook',
    'bin': 'application/octet-stream', 'bmp': 'image/bmp', 'bz': 'application/x-bzip',
    'bz2': 'application/x-bzip2', 'cda': 'application/x-cdf', 'csh': 'application/x-csh', 'css': 'text/css',
    'csv': 'text/csv', 'doc': 'application/msword',
    'docx': 'application/vnd.openxmlformats-officedocument.wordprocessingml.document',
    'eot': 'application/vnd.ms-fontobject', 'epub': 'application/epub+zip', 'gz': 'application/gzip',
    'gif': 'image/gif', 'htm': 'text/html', 'html': 'text/html', 'ico': 'image/vnd.microsoft.icon',
    'ics': 'text/calendar', 'jar': 'application/java-archive', 'jpeg': 'image/jpeg', 'jpg': 'image/jpeg',
    'js': 'text/javascript', 'json': 'application/json', 'jsonld': 'application/ld+json',
    'md': 'text/markdown', 'mid': 'audio/midi', 'midi': 'audio/midi', 'mjs': 'text/javascript',
    'mp3': 'audio/mpeg', 'mp4': 'video/mp4', 'mpeg': 'video/mpeg',
    'mpkg': 'application/vnd.apple.installer+xml',
    'odp': 'application/vnd.oasis.opendocument.presentation',
    'ods': 'application/vnd.oasis.opendocument.spreadsheet', 'odt': 'application/vnd.oasis.opendocument.text',
    'oga': 'audio/ogg', 'ogv': 'video/ogg', 'ogx': 'application/ogg', 'opus': 'audio/ogg', 'otf': 'font/otf',
    'png': 'image/png', 'pdf': 'application/pdf', 'php': 'application/x-httpd-php',
    'ppt': 'application/vnd.ms-powerpoint',
    'pptx': 'application/vnd.openxmlformats-officedocument.presentationml.presentation',
    'rar': 'application/vnd.rar', 'rtf': 'application/rtf', 'sh': 'application/x-sh', 'svg': 'image/svg+xml',
    'tar': 'application/x-tar', 'tif': 'image/tiff', 'tiff': 'image/tiff', 'ts': 'video/mp2t', 'ttf': 'font/ttf',
    'txt': 'text/plain', 'vsd': 'application/vnd.visio', 'wav': 'audio/wav', 'weba': 'audio/webm',
    'webm': 'video/webm', 'webmanifest': 'application/manifest+json', 'webp': 'image/webp',
    'woff': 'font/woff', 'woff2': 'font/woff2', 'xhtml': 'application/xhtml+xml',
    'xls': 'application/vnd.ms-excel',
    'xlsx': 'application/vnd.openxmlformats-officedocument.spreadsheetml.sheet', 'xml': 'application/xml',
    'xul': 'application/vnd.mozilla.xul+xml', 'zip': 'application/zip', '3gp': 'video/3gpp',
    '3g2': 'video/3gpp2', '7z': 'application/x-7z-compressed',
}
# rows that are not on MDN's list: registrations / common server tables (RFC 5334 for Ogg, RFC 4337 for
# MP4, Apache mime.types) as far as known
EXTRA = {
    'jpe': 'image/jpeg', 'jif': 'image/jpeg', 'jfif': 'image/jpeg', 'cur': 'image/x-icon',
    'flac': 'audio/flac', 'm4a': 'audio/mp4', 'm4v': 'video/x-m4v', 'm4p': 'application/mp4',
    'mpg': 'video/mpeg', 'mov': 'video/quicktime', 'ogg': 'audio/ogg', 'swf': 'application/x-shockwave-flash',
    'crt': 'application/x-x509-ca-cert',
}
TABLE = dict(MDN); TABLE.update(EXTRA)

# ext -> (what the pinned code answers, why it is tolerated, severity).  Candidate findings, reported
# by the standalone runner and in res.notes; the judge accepts TABLE[ext] or this value for these rows.
DEVIATIONS = {
    'opus': ('audio/opus', 'MDN: audio/ogg (Opus in an Ogg container); audio/opus is IANA-registered (RFC 7587) and widely served', 'low'),
    'ico':  ('image/x-icon', 'MDN/IANA: image/vnd.microsoft.icon; image/x-icon is the de-facto type browsers expect', 'low'),
    'ogg':  ('video/ogg', 'RFC 5334 registers .ogg for audio/ogg (Vorbis audio); the code labels every .ogg as video', 'medium'),
    'm4v':  ('video/mp4', 'Apache mime.types: video/x-m4v; video/mp4 is an accepted alias', 'low'),
    'm4p':  ('video/mp4', 'protected AAC audio (iTunes), Apache: application/mp4; the code labels it video', 'low'),
    'arc':  (DEFAULT, 'on MDN\'s list (application/x-freearc), no rule in the code', 'low'),
    'md':   (DEFAULT, 'on MDN\'s list (text/markdown), no rule in the code', 'low'),
    'webmanifest': (DEFAULT, 'on MDN\'s list (application/manifest+json), no rule in the code', 'low'),
}
# repaired defect kept as a regression case: the pinned tree answered `audio/oga` (not a media type) for .oga
REGRESSIONS = [('/dir/test.oga', 'audio/ogg'), ('a.b.oga', 'audio/ogg')]
STRICT = os.environ.get('MIME_STRICT', '') not in ('', '0')

# ----------------------------------------------------------------------------------------------
def ref_extension(p):
    """Unix `Path::new(p).extension()` on bytes, stated over the '/'-split (independent of the model,
    which scans the reversed string): last component that is neither empty nor '.', not '..';
    split at its last dot; None when there is no dot or nothing before it."""
    comps = [c for c in p.split(b'/') if c not in (b'', b'.')]
    if not comps: return None
    name = comps[-1]
    if name == b'..': return None
    i = name.rfind(b'.')
    if i <= 0: return None
    return name[i + 1:]

def last_comp(p):            # the spec's final path component: bytes after the last '/'
    return p.rsplit(b'/', 1)[-1]

def classify(p):
    """(class, ext) of a path for the oracle; ext as str or None"""
    c = last_comp(p)
    i = c.rfind(b'.')
    if c == b'': return ('trailing-slash', None)
    if i < 0: return ('no-dot', None)
    if c in (b'.', b'..'): return ('trailing-slash', None)      # "x/." / "x/..": no file name after the last '/'
    if i == 0: return ('dotfile', c[1:].decode('utf-8', 'replace'))
    return ('dotted', c[i + 1:].decode('utf-8', 'replace'))

def source_suffixes():
    """extensions named by the `*_SUFFIX` constants of the CURRENT source — used only to aim the
    generator at every rule (also rules added later); never used by the oracle"""
    try:
        txt = open(os.path.join(C.RWS_SRC, 'mime_type', 'mod.rs'), encoding='utf-8').read()
    except OSError:
        return []
    return sorted(set(re.findall(r'const\s+\w*SUFFIX\w*\s*:[^=]*=\s*"\.?([^"\\]*)"', txt)))

STEMS = ['x', 'test', 'a.b', 'a.b.c', 'archive.tar', 'x.', 'a..b', 'index.html', 'style.css', 'v1.2.3', '-', 'a b',
         'файл', 'naïve', '日本語', 'x.é', 'UPPER', '.hidden', '..x', 'x.txt', 'x.js', 'x.ts']
DIRS = ['', '/', '/dir/', 'dir/', '/a.b/c.d/', '/v1.2/', '/x.html/', '/x.txt/', './', '../', '/a/../', '/каталог/', '//', '/a//b/', '/.git/', '/d.png/e.js/']
TAILS = ['/', '//', '/.', '/./', '/..', '/./.', '?q=1', '#f', '?a.b=c.txt', '.', '..', ' ', '\x00', '~', 'x', '/x', '\n', '.bak', '.gz', '.TXT', '/index']

def gen_lines(rng, tier):
    lines, meta = [], []
    seen = set()
    def add(op, p, cls):
        b = p.encode('utf-8') if isinstance(p, str) else p
        ln = op + ' ' + C.hx(b)
        if ln in seen: return
        seen.add(ln); lines.append(ln); meta.append((op, b, cls))
    def both(p, cls):
        add('mimedetect', p, cls); add('mimeext', p, cls)

    exts = sorted(set(source_suffixes()) | set(TABLE))
    unknown = ['xyz', 'htmlx', 'tx', 'jso', 'j', 's', '', 'tar.gz', 'min.js', 'd.ts', 'html~', 'exe', 'wasm', 'rs', 'ports', 'assets']
    thorough = tier != 'quick'
    # 1. every extension of the source and of the independent table, on every name class
    for e in exts + unknown:
        E = e.upper()
        mixed = e[:1].upper() + e[1:]
        for p, cls in [
            ('/dir/test.' + e, 'plain'), ('x.' + e, 'plain'), ('/x.' + e, 'plain'),
            ('/a.b.c.' + e, 'several-dots'), ('/a..' + e, 'several-dots'), ('/x.tar.' + e, 'several-dots'),
            ('/x.' + e + '.' + e, 'several-dots'), ('/x.txt.' + e, 'several-dots'), ('/x.' + e + '.txt', 'several-dots'),
            ('/x.' + e + '.zz', 'several-dots'), ('/x.html.' + e, 'several-dots'), ('/x.' + e + '.js', 'several-dots'),
            ('/name' + e, 'no-dot'), ('/dir.' + e + '/name', 'dot-in-dir-only'), ('/x' + e, 'no-dot'), (e, 'no-dot'),
            ('/.' + e, 'leading-dot'), ('.' + e, 'leading-dot'), ('/dir/.' + e, 'leading-dot'), ('/..' + e, 'leading-dot'),
            ('/.x.' + e, 'leading-dot'), ('/dir.d/.' + e, 'leading-dot'),
            ('/X.' + E, 'upper-case'), ('/x.' + mixed, 'upper-case'), ('/dir/TEST.' + E, 'upper-case'), ('/X.' + e, 'upper-case-stem'),
            ('/файл.' + e, 'non-ascii'), ('/naïve.' + e, 'non-ascii'), ('/日本/語.' + e, 'non-ascii'), ('/x.é' + e, 'non-ascii'),
            ('/x.' + e + 'é', 'non-ascii'), ('/é.' + e + '/', 'non-ascii'),
            ('/x.' + e + '/', 'trailing-slash'), ('/dir/x.' + e + '//', 'trailing-slash'), ('/x.' + e + '/.', 'trailing-slash'),
            ('/x.' + e + '/./', 'trailing-slash'), ('/x.' + e + '/..', 'trailing-slash'), ('x.' + e + '/', 'trailing-slash'),
            ('/a.b/c.d/x.' + e, 'nested-dots'), ('/a.' + e + '/x', 'nested-dots'), ('/a.' + e + '/b.txt', 'nested-dots'),
            ('/a.txt/b.' + e, 'nested-dots'), ('/v1.2/sub.dir/x.y.' + e, 'nested-dots'), ('/a.' + e + '/.' + e, 'nested-dots'),
            ('/x.' + e + 'x', 'near-miss'), ('/x.' + e + '.', 'near-miss'), ('/x.x' + e, 'near-miss'), ('/x.' + e[:-1], 'near-miss'),
            ('/x.' + e[1:], 'near-miss'), ('/x.' + e + ' ', 'near-miss'), ('/x.' + e + '\x00', 'near-miss'), ('/x. ' + e, 'near-miss'),
            ('/x.' + e + '?v=1', 'near-miss'), ('/x.' + e + '#top', 'near-miss'), ('/x,' + e, 'near-miss'), ('/x.' + e + '~', 'near-miss'),
        ]:
            add('mimedetect', p, cls)
            if thorough or cls in ('leading-dot', 'trailing-slash', 'near-miss'):
                add('mimeext', p, cls)
    # 2. the same extension under many stems / directories / tails (feeds the ext-only oracle)
    n2 = 1500 if not thorough else 40000
    for _ in range(n2):
        e = rng.choice(exts) if rng.chance(5, 6) else rng.choice(unknown)
        if rng.chance(1, 12): e = e.upper()
        p = rng.choice(DIRS) + rng.choice(STEMS) + '.' + e
        cls = 'composed'
        if rng.chance(1, 5): p += rng.choice(TAILS); cls = 'composed+tail'
        both(p, cls)
    # 3. random strings over a small alphabet dense in separators
    alpha = ['a', 't', 'x', 's', 'j', '.', '.', '/', '/', 'T', 'é', 'h', 'm', 'l', '3', 'g', 'p']
    for _ in range(1500 if not thorough else 60000):
        n = rng.range(0, 14)
        both(''.join(rng.choice(alpha) for _ in range(n)), 'random')
    # 4. exhaustive small sub-spaces
    #    Path::extension: every string up to length L over {a, A, '.', '/'}
    L = 7 if not thorough else 9
    for n in range(0, L + 1):
        for tup in itertools.product('aA./', repeat=n):
            add('mimeext', ''.join(tup), 'exhaustive-ext')
    #    detect: every string up to length M over {'.', '/', 't', 's', 'j'} (`.ts` is an ends_with rule,
    #    `.js` an extension rule: both tests are exercised at every position of '.' and '/')
    M = 6 if not thorough else 8
    for n in range(0, M + 1):
        for tup in itertools.product('./tsj', repeat=n):
            add('mimedetect', ''.join(tup), 'exhaustive-detect')
    # 5. regression cases and invalid UTF-8 (protocol answer `badutf8` on both sides)
    for p, _ in REGRESSIONS: add('mimedetect', p, 'regression')
    for b in [b'/x\xff.txt', b'\xc3', b'/x.\xe9', b'\x80.html']:
        add('mimedetect', b, 'badutf8'); add('mimeext', b, 'badutf8')
    return lines, meta

def judge(res, lines, meta, impl, model, compare=True):
    """model-vs-implementation diff (unless compare=False) + the independent oracle on impl"""
    if compare:
        C.compare(res, lines, impl, model, 'Mime', nontrivial=lambda ln, a: not ln.endswith(' -'))
    by_ext = {}          # ext -> (answer, line) of the first dotted path seen with that extension
    dev_seen = {}
    dotfile_ans = {}     # ext -> answer for the name ".<ext>"
    for ln, (op, p, cls), a in zip(lines, meta, impl):
        if a.startswith('panic') or a.startswith('abort'):
            res.fail('panic:' + a.split(' ', 1)[1], ln, a, None, f'{op} panicked on {p!r}')
            continue
        if cls == 'badutf8':
            res.count('mime badutf8')
            if a != 'badutf8': res.fail('mime-protocol', ln, a, None, 'non-UTF-8 field not answered badutf8')
            continue
        if op == 'mimeext':
            r = ref_extension(p)
            want = 'none' if r is None else 'ok ' + C.hx(r)
            res.count('mimeext ' + ('none' if r is None else 'some'))
            if a != want:
                res.fail('mime-extension', ln, a, None, f'Path::extension reference gives {want} for {p!r}')
            continue
        # mimedetect
        if not a.startswith('ok '):
            res.fail('mime-protocol', ln, a, None, 'unexpected answer'); continue
        got = C.unhx(a[3:]).decode('utf-8', 'replace')
        kind, ext = classify(p)
        def bad(sig, why): res.fail(sig, ln, got, None, f'{p!r}: {why}')
        if kind == 'dotted':
            # ext-only: one answer per extension, whatever the stem / directories / number of dots
            if ext in by_ext:
                if by_ext[ext][0] != got:
                    bad('mime-ext-only', f'type {got} but {C.unhx(by_ext[ext][1].split()[1])!r} with the same extension {ext!r} got {by_ext[ext][0]}')
            else:
                by_ext[ext] = (got, ln)
            if ext in TABLE:
                want = TABLE[ext]
                res.count('detect dotted, known ext' + (' [' + cls + ']' if cls in ('several-dots', 'non-ascii', 'nested-dots', 'upper-case-stem') else ''))
                if got == want:
                    pass
                elif ext in DEVIATIONS and got == DEVIATIONS[ext][0] and not STRICT:
                    dev_seen[ext] = got
                else:
                    bad('mime-table:' + ext, f'extension {ext!r} is registered as {want}, got {got}')
            elif ext.lower() in TABLE and ext != ext.lower():
                # documented as-is behaviour (C02_mime_case): matching is case-sensitive, so an upper-case
                # extension gets the default; a case-insensitive implementation would also be right
                res.count('detect dotted, upper-case ext')
                if got not in (DEFAULT, TABLE[ext.lower()]) and not (ext.lower() in DEVIATIONS and got == DEVIATIONS[ext.lower()][0]):
                    bad('mime-table-case:' + ext.lower(), f'upper-case extension {ext!r}: expected {DEFAULT} or {TABLE[ext.lower()]}, got {got}')
            else:
                res.count('detect dotted, unknown ext')
                # an extension unknown to the independent table: default, unless the source names it
                # (a rule added after this table was written: reported as a note, not judged)
                if got != DEFAULT:
                    if ext in _SRC_EXTS():
                        res.notes.append(f'mime: extension {ext!r} -> {got} is in the source but not in the independent table (unreviewed)') if len(res.notes) < 20 else None
                    else:
                        bad('mime-unknown-ext', f'extension {ext!r} is in no table, expected {DEFAULT}, got {got}')
        elif kind == 'dotfile':
            # the name is exactly ".<ext>": Path::extension is None (hidden file without extension) but
            # ends_with rules still fire (C02_mime_dotfile).  Either reading is accepted here.
            res.count('detect dot-file')
            dotfile_ans.setdefault(ext, got)
            ok = {DEFAULT}
            if ext in TABLE: ok.add(TABLE[ext])
            if ext in DEVIATIONS: ok.add(DEVIATIONS[ext][0])
            if got not in ok: bad('mime-dotfile', f'dot-file: expected one of {sorted(ok)}, got {got}')
        elif kind == 'trailing-slash':
            # "x.html/" (also "x.html/.") names a directory; Path::extension still sees "html" (extension rules
            # fire, ends_with rules do not); "x.html/.." has no file name at all.  Accepted: default or the
            # type of the Rust-style extension.
            res.count('detect trailing slash')
            r = ref_extension(p)
            ok = {DEFAULT}
            if r is not None:
                e2 = r.decode('utf-8', 'replace')
                if e2 in TABLE: ok.add(TABLE[e2])
                if e2 in DEVIATIONS: ok.add(DEVIATIONS[e2][0])
            if got not in ok: bad('mime-trailing-slash', f'expected one of {sorted(ok)}, got {got}')
        else:
            res.count('detect ' + kind)
            if got != DEFAULT: bad('mime-no-extension', f'no extension ({kind}): expected {DEFAULT}, got {got}')
    for p, want in REGRESSIONS:
        ln = 'mimedetect ' + C.hx(p.encode())
        if ln in lines:
            a = impl[lines.index(ln)]
            if a != 'ok ' + C.hx(want.encode()):
                res.fail('mime-table:oga', ln, a, None, f'regression: {p} must be {want}')
    # replay of the Lean witness C02_mime_ext_only_undotted_violated on the real code: which extensions
    # are typed for "x.<e>" but not for the bare name ".<e>" (extension rules) — reported, not judged
    quirk = sorted(e for e, g in dotfile_ans.items() if e in by_ext and by_ext[e][0] != g)
    if quirk:
        res.notes.append('mime: dot-file names ".<e>" are typed differently from "x.<e>" (Path::extension is None; '
                         'only ends_with rules fire) for: ' + ' '.join(quirk))
    for ext, got in sorted(dev_seen.items()):
        res.notes.append(f'mime: candidate finding (.{ext} -> {got}; independent table: {TABLE[ext]}): {DEVIATIONS[ext][1]}')
    # every extension of the independent table must have been exercised
    missing = [e for e in TABLE if e not in by_ext]
    if missing:
        res.fail('mime-generator', '-', '-', None, f'generator did not exercise extensions {missing}')

_src_exts = None
def _SRC_EXTS():
    global _src_exts
    if _src_exts is None: _src_exts = set(source_suffixes())
    return _src_exts

def run_standalone(tier='quick', seed=1):
    import time
    t0 = time.time()
    res = C.Result('C02')
    lines, meta = gen_lines(C.Rng(seed), tier)
    impl, model = C.run_both(lines)
    judge(res, lines, meta, impl, model)
    dt = time.time() - t0
    print(f'mime_part {tier}: {len(lines)} cases, {len(res.distinct)} distinct non-trivial, {dt:.1f}s')
    for k in sorted(res.dist): print(f'  {res.dist[k]:7d}  {k}')
    for n in res.notes: print('NOTE', n)
    print(f'disagreements {len(res.disagreements)}')
    for d in res.disagreements[:15]:
        op, f = d['case'].split()
        print('  DISAGREE', op, repr(C.unhx(f)), 'impl=', d['impl'], 'model=', d['model'])
    sigs = {}
    for f in res.failures: sigs.setdefault(f['sig'], []).append(f)
    print(f'oracle failures {len(res.failures)} ({len(sigs)} signatures)')
    for s, fs in sorted(sigs.items()):
        print(f'  VIOLATION-CANDIDATE sig={s} n={len(fs)} case={fs[0]["case"]} impl={fs[0]["impl"]} why={fs[0]["why"]}')
    return 0 if not res.disagreements and not res.failures else 1

if __name__ == '__main__':
    tier = sys.argv[1] if len(sys.argv) > 1 else 'quick'
    seed = int(sys.argv[2]) if len(sys.argv) > 2 else int(os.environ.get('VERIF_SEED', '1') or '1')
    sys.exit(run_standalone(tier, seed))
