"""C11, second generator audit (audit/C11/AUDIT2.md): whole responses read as a STREAM.

The first pass judged the Access-Control-* headers of the first buffer of one answer to one request.  Here the bytes the peer RECEIVED are
split into the answers they hold (interim answers, the answer to a second request sent in the same read) and EVERY answer is judged against
the request it answers, by the same expectation function as everywhere else in props/c11.py (`want_get`): exact membership of the Origin in
the comma split of the configuration, grants = configuration; echo when the switch is on; nothing without an Origin header.

Inputs: vlib/gen_c11.py `feature_plan` - one harness process per configuration, the requests in a fixed order (what was asked before must
not show in an answer): request headers the server ignores today (conditional requests, encodings with sidecar files next to the served
one, Expect, connection management, proxies, fetch metadata, method override ...), proxy-header families / the server's own address / the
peer's address naming an unconfigured Origin, multi-byte characters straddling every byte offset, characters at the edges of the Origin
value, "Origin:" text outside the Origin header, refused requests after granted ones, floods of distinct origins, two requests in one read,
Expect: 100-continue with the body sent or held back; write scripts that make the server hand over its answer in many pieces."""
import re, threading

STATUS_LINE = re.compile(rb'HTTP/1\.[01] (\d{3}) ')

def tree_for(S):
    """files NEXT to the served one a negotiating / conditional / redirecting server would go looking for"""
    t = S.Tree('root')
    t.file('root/file.txt', b'0123456789' * 30).file('root/file.txt.gz', b'\x1f\x8b\x08\x00 sidecar gz').file('root/file.txt.br', b'sidecar br').file('root/file.txt.zst', b'sidecar zst')
    t.file('root/file.txt.etag', b'"abc"').file('root/file.txt.headers', b'Access-Control-Allow-Origin: *\n').file('root/_headers', b'/*\n  Access-Control-Allow-Origin: *\n')
    t.file('root/sub/index.html', b'<p>sub index</p>').file('root/sub/page.html', b'<p>page</p>').file('root/page.html', b'<p>page</p>').file('root/page.html.gz', b'\x1f\x8b sidecar')
    t.file('root/data.json', b'{"a":1}').file('root/empty.txt', b'').file('root/.htaccess', b'Header set Access-Control-Allow-Origin "*"\n').file('root/cors.json', b'{"allow_all":true}')
    from vlib import gen_c11 as X
    for f in X.MEDIA_FILES: t.file('root/assets/' + f, b'media ' + f.encode())
    for f in ('api/items.json', 'public/file.txt', 'private/file.txt', 'static/app.js', '.well-known/security.txt', 'cdn/lib.js'): t.file('root/' + f, b'content of ' + f.encode())
    t.file('root/big.bin', b'0123456789abcdef' * 4375)          # 70 000 bytes: more than 64 KiB
    t.file('secret.txt', b'above the root')
    return t

def run_plan(plan, with_model=True):
    from vlib import serve as S, servecheck as K
    out = [None] * len(plan)
    def work(i):
        label, pairs, reqs = plan[i]
        tree = tree_for(S)
        cases = [K.mk(tree, d['reqs'][0][0], d['target'], d['reqs'][0][1], entry=d['entry'], ws=d['ws'], flush=d['flush'], app=d['app'], alloc=d['alloc'], raw=d['raw'], kind=d['kind']) for d in reqs]
        env = [(k, v) for k, v in S.DEFAULT_ENV if not k.startswith('RWS_CONFIG_CORS')] + list(pairs)
        rs = K.run_batches([(tree, cases)], with_model=with_model, env=env)
        out[i] = [(label, pairs, d, c, r, il, ml) for d, (c, r, il, ml) in zip(reqs, rs)] if tree.setup_ok else 'setup failed: ' + label
    ts = [threading.Thread(target=work, args=(i,)) for i in range(len(plan))]
    for t in ts: t.start()
    for t in ts: t.join()
    return out

def answers(stream):
    """the answers a byte stream holds: [(status, [(name, value bytes)])].  The bodies of this campaign (the files of `tree_for`, the
    server's own pages and error texts) hold no status line, so every `HTTP/1.x ddd ` starts an answer."""
    starts = [m.start() for m in STATUS_LINE.finditer(stream)]
    if not starts or starts[0] != 0: starts = [0] + starts
    out = []
    for a, z in zip(starts, starts[1:] + [len(stream)]):
        seg = stream[a:z]
        m = STATUS_LINE.match(seg)
        head = seg.split(b'\r\n\r\n', 1)[0]
        hs = []
        for ln in head.split(b'\r\n')[1:]:
            if b':' in ln:
                n, v = ln.split(b':', 1)
                hs.append((n.strip(b' \t').decode('latin1'), v.strip(b' \t')))
        out.append((int(m.group(1)) if m else None, hs))
    return out

def judge(res, outs, N):
    """N: the names of props/c11.py (want_get, env_field, GRANT_NAMES, b)"""
    if outs is None:
        res.fail('stream:not-run', 'serve mode', None, None, 'the second whole-server run did not finish'); return
    canon = {n.lower() for n in N.GRANT_NAMES}
    for group in outs:
        if not isinstance(group, list):
            res.fail('stream:setup', str(group), None, None, 'tree / environment of the second whole-server run could not be set up'); continue
        for label, pairs, d, c, r, il, ml in group:
            res.evaluations += 1
            if ml is not None:
                res.programs += 1
                if il != ml: res.disagree(f'serve mode; env {N.env_field(pairs)}; {c.line[:400]}', il[:300], ml[:300], 'Server (CORS grants in whole responses, second pass)')
            res.count('stream: ' + d['kind']); res.count('stream env: ' + label)
            case = f'serve mode; env {N.env_field(pairs)}; {c.line[:700]}'
            res.distinct.add(hash(case))
            head = r['head']
            if head.startswith(('panic', 'abort')):
                res.fail('stream:panic:' + head.split(' ', 1)[-1][:80], case, head, None, f'{label}: the server entry point {c.entry} panicked / did not come back on {c.raw[:160]!r}'); continue
            stream = r['recv'] or (r['writes'][0] if r['writes'] else b'')
            if not stream:
                res.count('stream: no response'); continue
            k = 0                       # number of final answers seen so far = index of the request the next answer belongs to
            bad = False
            for status, hs in answers(stream):
                interim = status is not None and 100 <= status < 200
                idx = min(k, len(d['reqs']) - 1)
                method, rh, strict = d['reqs'][idx]
                beyond = k >= len(d['reqs'])                      # more final answers than requests: it may carry at most what the last request earns
                want = N.want_get(pairs, method, rh)
                got = [(n, v) for n, v in hs if n.lower().startswith('access-control-')]
                shown = f'answer {k + 1}{" (interim)" if interim else ""} status {status}: ' + str([(n, v.decode("utf-8", "replace")) for n, v in got])[:300]
                what = f'{label}: request {idx + 1} of {len(d["reqs"])}: {method} {rh}'[:500]
                w = {n.lower(): (N.b(v) if v is not None else None) for n, v in want}
                g = {n.lower(): v for n, v in got}
                if any(n.lower() not in canon for n, _ in got):
                    res.fail('stream:foreign-grant', case, shown, None, f'{what}: an answer carries an Access-Control-* header that is not one of the six grants'); bad = True
                elif len(g) != len(got):
                    res.fail('stream:duplicate-grant', case, shown, None, f'{what}: a grant header is repeated in an answer'); bad = True
                elif not w and g:
                    res.fail('stream:granted-unexpectedly', case, shown, None, f'{what}: grants in an answer although the Origin of the request it answers is absent / not one of the configured origins'); bad = True
                elif interim or beyond or not strict:
                    if any(n not in w or (w[n] is not None and w[n] != v) for n, v in g.items()):
                        res.fail('stream:wrong-grants', case, shown, None, f'{what}: expected at most {want}'); bad = True
                elif w and not g:
                    res.fail('stream:grant-missing', case, shown, None, f'{what}: expected grants {want}'); bad = True
                elif set(w) != set(g) or any(v is not None and g[n] != v for n, v in w.items()):
                    res.fail('stream:wrong-grants', case, shown, None, f'{what}: expected exactly {want}'); bad = True
                if bad: break
                if not interim: k += 1
            if not bad:
                res.count('stream answers per read: %d' % k)
