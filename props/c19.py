"""C19 — JSON serialisation round-trips and is valid JSON (+ the JSON part of C20: the object
and array parsing entry points return a value or an error for every input).

Correspondence: the real `src/json/**` code (typed list readers/writers, the array splitter,
JSONProperty::parse, JSON::parse_as_properties / to_json_string, harness structs implementing
ToJSON/FromJSON/New) vs `Rws.Json` (Lean model).  Oracle on the implementation alone: Python's
`json` module (validity + meaning of every text the library writes, numbers compared as decimal
tokens / exact integers / exact binary64 values, never through a lossy path) and the
round-trip rule itself."""
import json, struct, os, glob, re, sys
from vlib import common as C
from vlib import gen_c19 as X      # input classes added by the generator audit (audit/C19/AUDIT.md)

DRIVERS = ['Json']   # model driver files this check runs: scopes translator failures to the tables they (and the proofs) import
TRUSTED = [
    "floats are opaque tokens: the model carries the text Rust's f64 Display printed (asked from the harness, op jfdisp) and the text "
    "the parser saw; ASSUMED: Rust's f64/f32 Display/FromStr round-trip (parse(display(x)) == x, also with '.0' appended to an integral value)",
    "model abstraction: the byte cursors of the scanners are modelled on characters (justified in Rws/Json.lean: the argument is a Rust String; every "
    "single-character read is json::read_utf8_char + String::from_utf8, which on well-formed UTF-8 yields exactly the next character - theorem C19_read_chars, "
    "and the op jreadchars compares that read with the model on arbitrary bytes; read_until only splits at ASCII delimiters; bytes_read == total_bytes iff no character is left)",
    "Rust std: char::is_whitespace / is_ascii_control, str::trim, str::parse::<iN/uN>, f64::from_str's grammar (modelled by hand); char::is_numeric = table probed from "
    "the toolchain (translator/gens/jsonnum.py), compared with the running std as a whole by the op jnumeric; UTF-8 decoding = core Lean's ByteArray.utf8DecodeChar?",
    "the harness structs Flat/Doc (harness/src/ops/json.rs) implement ToJSON/FromJSON/New the way the repository's test structs do",
]
ASSUMPTIONS = [
    "protocol glue: hex fields, UTF-8 decoding by Lean String.fromUTF8? and Rust String::from_utf8; a float value is compared as the bits the "
    "real code produced vs CPython float(token) of the token the model produced (both correctly rounded conversions)",
    "independent oracle: CPython json.loads (RFC 8259 parser) with parse_int=int, parse_float=str",
]

INT_TYPES = {
    'i8': (-2**7, 2**7 - 1), 'i16': (-2**15, 2**15 - 1), 'i32': (-2**31, 2**31 - 1), 'i64': (-2**63, 2**63 - 1),
    'i128': (-2**127, 2**127 - 1), 'u8': (0, 2**8 - 1), 'u16': (0, 2**16 - 1), 'u32': (0, 2**32 - 1),
    'u64': (0, 2**64 - 1), 'u128': (0, 2**128 - 1)}
DOC_FIELDS = [('s1', 's'), ('b1', 'b'), ('i1', 'i'), ('f1', 'f'), ('o1', 'o'),
              ('ai128', 'Ai128'), ('ai64', 'Ai64'), ('ai32', 'Ai32'), ('ai16', 'Ai16'), ('ai8', 'Ai8'),
              ('au128', 'Au128'), ('au64', 'Au64'), ('au32', 'Au32'), ('au16', 'Au16'), ('au8', 'Au8'),
              ('ab', 'Abool'), ('astr', 'Astr'), ('af', 'Af64'), ('an', 'Anull'), ('ao', 'Aobj'),
              ('s2', 's'), ('b2', 'b'), ('i2', 'i'), ('f2', 'f'), ('o2', 'o')]

hx = C.hx

def f64_bits(x): return struct.unpack('>Q', struct.pack('>d', x))[0]
def bits_f64(b): return struct.unpack('>d', struct.pack('>Q', b))[0]

# ------------------------------------------------------------------ value generators
def gen_int(rng, lo, hi):
    k = rng.below(10)
    if k == 0: return rng.choice([lo, hi, 0, lo + 1, hi - 1, max(lo, -1), min(hi, 1)])
    if k == 1: return rng.choice([v for v in (-10, -9, 9, 10, 99, 100, -100, 255, 256, -128, -129, 10**18, -10**18, 10**38) if lo <= v <= hi] or [0])
    if k < 5: return rng.range(max(lo, -1000), min(hi, 1000))
    # uniformly random width
    w = rng.range(1, max(hi, -lo).bit_length())
    v = rng.below(1 << w)
    if lo < 0 and rng.chance(1, 2): v = -v
    return min(max(v, lo), hi)

SPECIAL_F64 = [0.0, 1.0, -1.0, 2.0, 10.0, 100.0, 1e15, 1e16, 1e17, 1e21, 1e22, 1e23, 1e100, 1e300, 1.7976931348623157e308,
               5e-324, 2.2250738585072014e-308, 1e-7, 1e-5, 0.1, 0.2, 0.30000000000000004, 1 / 3, 2 / 3, 4356.257, 2.2, 123456789.125,
               -0.5, -1e-10, -123.456, 9007199254740993.0, 0.1 + 0.7, 1.0000000000000002, 4.35, 2.675, 1e-320, 123456789012345680.0,
               -1e21, 0.000001, 1.5e-9, 3.141592653589793, 2.718281828459045, 6.02214076e23, 1.602176634e-19]

def gen_f64(rng):
    k = rng.below(6)
    if k == 0: return rng.choice(SPECIAL_F64)
    if k == 1: return float(rng.range(-100000, 100000))
    if k == 2: return rng.range(-10**9, 10**9) / 1000.0
    if k == 3:                                   # random finite bit pattern (17 significant digits)
        while True:
            b = rng.next()
            if (b >> 52) & 0x7ff != 0x7ff: return bits_f64(b)
    if k == 4: return rng.range(1, 10**17) / 10.0**rng.range(0, 30) * rng.choice([1, -1])
    return bits_f64(f64_bits(rng.range(1, 1000) * 10.0**rng.range(-300, 300)) ^ rng.below(4))

PRINTABLE = [chr(c) for c in range(32, 127) if chr(c) not in '"\\']
PLAIN = [c for c in PRINTABLE if c not in '{}[]']
NONASCII = ['é', 'ß', 'Ł', 'я', '€', '漢', '\U0001F600', '\u00a0', 'ñ', '\u0080', '\u07ff', '\u0800', '\uffff', '\U00010000', '\U0010FFFF', '\u3000', '٣', '½', '\U0001D7D8']

def gen_str(rng, kind='plain'):
    n = rng.choice([0, 1, 2, 3, 5, 8, 13, 40]) if rng.chance(1, 2) else rng.range(0, 12)
    alpha = PLAIN if kind in ('plain', 'nonascii') else PRINTABLE
    if kind == 'mixed':      # printable ASCII, brackets and non-ASCII characters of every encoded length in one string, at every position
        return ''.join(rng.choice(NONASCII) if rng.chance(1, 4) else rng.choice('{}[]') if rng.chance(1, 4) else rng.choice(PRINTABLE) for _ in range(n))
    s = ''.join(rng.choice(alpha) for _ in range(n))
    if kind == 'nonascii':
        p = rng.range(0, len(s)); s = s[:p] + rng.choice(NONASCII) + s[p:]
    if kind == 'bracket':
        p = rng.range(0, len(s)); s = s[:p] + rng.choice('{}[]') + s[p:]
    return s

def gen_len(rng):
    k = rng.below(8)
    if k == 0: return 0
    if k == 1: return 1
    if k == 2: return rng.choice([2, 63, 64])
    return rng.range(0, 64) if k == 3 else rng.range(0, 6)

# tree: list of (name, kind, payload); kinds as in DOC_FIELDS
def gen_doc(rng, depth, strkind='plain', p_present=None):
    p = p_present if p_present is not None else rng.choice([1, 3, 5, 8, 10])   # out of 10
    out = []
    for name, kind in DOC_FIELDS:
        if not rng.chance(p, 10): continue
        if kind == 's': v = gen_str(rng, strkind)
        elif kind == 'b': v = rng.chance(1, 2)
        elif kind == 'i': v = gen_int(rng, *INT_TYPES['i128'])
        elif kind == 'f': v = gen_f64(rng)
        elif kind == 'o':
            if depth <= 0: continue
            v = gen_doc(rng, depth - 1, strkind, p_present=rng.choice([0, 1, 2, 3]))
        elif kind == 'Aobj':
            if depth <= 0: continue
            v = [gen_doc(rng, depth - 1, strkind, p_present=rng.choice([0, 1, 2])) for _ in range(rng.range(0, 3))]
        elif kind == 'Abool': v = [rng.chance(1, 2) for _ in range(gen_len(rng))]
        elif kind == 'Astr': v = [gen_str(rng, strkind) for _ in range(gen_len(rng))]
        elif kind == 'Af64': v = [gen_f64(rng) for _ in range(gen_len(rng))]
        elif kind == 'Anull': v = gen_len(rng)
        else: v = [gen_int(rng, *INT_TYPES[kind[1:]]) for _ in range(gen_len(rng))]
        out.append((name, kind, v))
    return out

def doc_floats(doc, acc):
    for _, kind, v in doc:
        if kind == 'f': acc.add(f64_bits(v))
        elif kind == 'Af64': acc.update(f64_bits(x) for x in v)
        elif kind == 'o': doc_floats(v, acc)
        elif kind == 'Aobj':
            for d in v: doc_floats(d, acc)

def ftok(x, disp): b = f64_bits(x); return '%016x:%s' % (b, disp[b])

def render_doc(doc, disp):
    parts = []
    for name, kind, v in doc:
        if kind == 's': r = 's' + hx(v)
        elif kind == 'b': r = 'b' + ('t' if v else 'f')
        elif kind == 'i': r = 'i%d' % v
        elif kind == 'f': r = 'f' + ftok(v, disp)
        elif kind == 'o': r = 'o' + render_doc(v, disp)
        elif kind == 'Aobj': r = 'Aobj[' + ','.join(render_doc(d, disp) for d in v) + ']'
        elif kind == 'Abool': r = 'Abool[' + ','.join('t' if b else 'f' for b in v) + ']'
        elif kind == 'Astr': r = 'Astr[' + ','.join(hx(s) for s in v) + ']'
        elif kind == 'Af64': r = 'Af64[' + ','.join(ftok(x, disp) for x in v) + ']'
        elif kind == 'Anull': r = 'Anull[' + ','.join('n' for _ in range(v)) + ']'
        else: r = kind + '[' + ','.join(str(n) for n in v) + ']'
        parts.append(hx(name) + '=' + r)
    return '{' + ';'.join(parts) + '}'

def doc_py(doc):
    """the Python value the JSON text must mean (floats as Python floats)"""
    o = {}
    for name, kind, v in doc:
        if kind == 'o': o[name] = doc_py(v)
        elif kind == 'Aobj': o[name] = [doc_py(d) for d in v]
        elif kind == 'Anull': o[name] = [None] * v
        else: o[name] = v
    return o

def same_value(want, got):
    """`got` comes from json.loads(parse_float=str, parse_int=int)"""
    if isinstance(want, dict):
        return isinstance(got, dict) and list(want.keys()) == list(got.keys()) and all(same_value(want[k], got[k]) for k in want)
    if isinstance(want, list):
        return isinstance(got, list) and len(want) == len(got) and all(same_value(a, b) for a, b in zip(want, got))
    if isinstance(want, bool) or want is None: return got is want
    if isinstance(want, int): return isinstance(got, int) and not isinstance(got, bool) and got == want
    if isinstance(want, float):
        if isinstance(got, int) and not isinstance(got, bool): return float(got) == want      # the decimal token read as binary64 (correctly rounded)
        return isinstance(got, str) and float(got) == want
    return got == want

def doc_has(doc, pred):
    for name, kind, v in doc:
        if pred(kind, v): return True
        if kind == 'o' and doc_has(v, pred): return True
        if kind == 'Aobj' and any(doc_has(d, pred) for d in v): return True
    return False

def has_nonascii(doc):
    return doc_has(doc, lambda k, v: (k == 's' and not v.isascii()) or (k == 'Astr' and any(not s.isascii() for s in v)))
def has_neg_zero(doc):
    nz = lambda x: x == 0.0 and f64_bits(x) != 0
    return doc_has(doc, lambda k, v: (k == 'f' and nz(v)) or (k == 'Af64' and any(nz(x) for x in v)))
def nested_bracket(doc, inside=False):
    """a string with a brace/bracket inside a nested value (nested object, or any array of strings / objects)"""
    for name, kind, v in doc:
        if kind == 's' and inside and any(c in v for c in '{}[]'): return True
        if kind == 'Astr' and any(c in s for s in v for c in '{}[]'): return True
        if kind == 'o' and nested_bracket(v, True): return True
        if kind == 'Aobj' and any(nested_bracket(d, True) for d in v): return True
    return False

# ------------------------------------------------------------------ output normalisation
def tok_to_bits(tokhex, width=64):
    t = C.unhx(tokhex).decode('utf-8', 'replace')
    try: x = float(t)
    except ValueError: return 'unparsable:' + tokhex
    if x != x: return 'nan'
    if width == 32:
        try: return struct.pack('>f', x).hex()
        except OverflowError: return 'ff800000' if x < 0 else '7f800000'
    return '%016x' % f64_bits(x)

def canon_bits(b):
    try: v = int(b, 16)
    except ValueError: return b
    if len(b) == 16 and (v >> 52) & 0x7ff == 0x7ff and v & ((1 << 52) - 1): return 'nan'
    if len(b) == 8 and (v >> 23) & 0xff == 0xff and v & ((1 << 23) - 1): return 'nan'
    return b

F_RE = re.compile(r'f=([0-9a-f]+)')
def norm_model(line, out):
    op = line.split(' ', 1)[0]
    if op in ('jlist_f64', 'jlist_f32') and out.startswith('ok ') and out != 'ok 0':
        w = 64 if op == 'jlist_f64' else 32
        _, n, items = out.split(' ')
        return 'ok %s %s' % (n, ','.join(tok_to_bits(t, w) for t in items.split(',')))
    if op in ('jprop', 'jobjparse', 'jrt'):
        return F_RE.sub(lambda m: 'f=' + tok_to_bits(m.group(1)), out)
    return out

def norm_impl(line, out):
    out = out.split(' # ')[0]
    op = line.split(' ', 1)[0]
    if op in ('jlist_f64', 'jlist_f32') and out.startswith('ok ') and out != 'ok 0':
        _, n, items = out.split(' ')
        return 'ok %s %s' % (n, ','.join(canon_bits(t) for t in items.split(',')))
    if op in ('jprop', 'jobjparse', 'jrt'):
        return F_RE.sub(lambda m: 'f=' + canon_bits(m.group(1)), out)
    return out

def run_cmp(res, lines, component):
    impl, model = C.run_both(lines)
    C.compare(res, lines, [norm_impl(l, a) for l, a in zip(lines, impl)], [norm_model(l, b) for l, b in zip(lines, model)], component)
    return impl, model

def check_total(res, line, a, entry):
    """C20 (JSON part): a value or an error for every input"""
    if a.startswith('panic '):
        res.fail('panic:' + a.split(' ', 1)[1], line[:400], a, None, f'{entry} panicked'); return False
    if a.startswith('abort'):
        res.fail('abort:' + entry, line[:400], a, None, f'{entry} aborted the process (stack overflow / abort) or did not terminate'); return False
    return True

# ------------------------------------------------------------------ malformed stream
def repo_corpus():
    """the Rust test-suite's own documents (valid and malformed)"""
    objs, arrs = [], []
    base = os.path.join(C.RWS_SRC, 'json')
    for p in sorted(glob.glob(os.path.join(base, '**', '*.json'), recursive=True) + glob.glob(os.path.join(base, '**', '*.txt'), recursive=True)):
        try: t = open(p, encoding='utf-8').read()
        except (OSError, UnicodeDecodeError): continue
        (arrs if '/array/' in p and os.path.basename(p).startswith('list.') else objs).append(t)
    for p in sorted(glob.glob(os.path.join(base, 'array', 'tests', '*', 'mod.rs'))):
        for m in re.finditer(r'let array = "((?:[^"\\]|\\.)*)";', open(p, encoding='utf-8').read()):
            arrs.append(m.group(1).encode().decode('unicode_escape'))
    return objs, arrs

def mutations(rng, text, n_random, every_truncation):
    b = text.encode('utf-8')
    out = []
    if every_truncation:
        out += [b[:i] for i in range(len(b))]
    else:
        out += [b[:rng.range(0, len(b))] for _ in range(6)]
    for _ in range(n_random):
        k = rng.below(9)
        p = rng.range(0, max(0, len(b) - 1))
        if k == 0 and b: out.append(b[:p] + bytes([b[p] ^ (1 << rng.below(8))]) + b[p + 1:])
        elif k == 1: out.append(b[:p] + rng.choice(NONASCII).encode() + b[p:])
        elif k == 2: out.append(b[:p] + bytes([rng.choice([0x80, 0xff, 0xc3, 0xe2, 0xf0])]) + b[p:])
        elif k == 3 and b: out.append(b[:p] + b[p:p + 1] * rng.range(2, 4) + b[p + 1:])            # duplicated delimiter / char
        elif k == 4: out.append(b[:p] + rng.choice([b',', b':', b'"', b'{', b'}', b'[', b']', b' ', b'\n', b'\\', b'-', b'.', b'e', b'n', b't', b'f', b'\t', b'\x7f', b'0']) + b[p:])
        elif k == 5 and b: out.append(b[:p] + b[p + 1:])
        elif k == 6 and b:
            q = rng.range(0, len(b) - 1); lo, hi = min(p, q), max(p, q); out.append(b[:lo] + b[hi:])
        elif k == 7: out.append(b[:p] + b[p:] + b[p:])
        else: out.append(b[:p] + rng.bytes(rng.range(1, 4)) + b[p:])
    return out

def pathological(tier):
    n = 10000
    out = [b'[' * n, b'[' * n + b']' * n, b'{' * n, b'{"a":' * n, b'{"a": ' + b'{' * n + b'}' * n + b'}', b'{"a": ' + b'[' * n + b']' * n + b'}',
           b'[' + b'{' * n + b'}' * n + b']', b'[' + b'[' * n + b']' * n + b']', b'{"a": "' + b'x' * 100000 + b'"}', b'["' + b'y' * 100000 + b'"]',
           b'[' + b','.join([b'1'] * 20000) + b']', b'{"a": ' + b'1' * 50000 + b'}', b'[' + b' ' * 50000 + b']', b'{' + b'\n' * 50000 + b'}',
           b'[' + b',' * 50000 + b']', b'{"k": 1' + b',' * 20000 + b'}', b'"' * 30000, b':' * 30000, b'{"a"' + b':' * 30000, b'[1' + b'e' * 3 + b']',
           b'[-' * 5000, b'[' + b'-' * 5000 + b']', b'{"a": -' + b'-' * 5000 + b'}', b'\\' * 10000, b'["' + b'\\' * 10001 + b'"]',
           b'{"a": "' + b'\\' * 10001 + b'"}', b'[n', b'[nu', b'[nul', b'[t', b'[f', b'[fals', b'{"a": n', b'{"a": tru', b'', b' ', b'[', b'{', b']', b'}',
           b'[]', b'{}', b'[ ]', b'{ }', b'[]]', b'{}}', b'{"a": 1}}', b'[1]]', b'[1] x', b'{"a": 1} x', b'x[1]', b'x{"a": 1}']
    return out

# ------------------------------------------------------------------ regression cases of the repaired defects (run first)
def regression_cases(res):
    """the inputs that failed before a `fix:` commit: they must give the right answer on the real code, and the model must agree"""
    P = lambda name, ty, val: '%s:%s:%s' % (hx(name), hx(ty), val)
    nested = '{\r\n  "b": "}"\r\n}'
    reg = [('jobjparse ' + hx('{"a": -5}'), 'ok 1 61:69313238:i=-5'), ('jsplit ' + hx('[1,-2]'), 'ok 2 31,2d32'), ('jsplit ' + hx('[-1]'), 'ok 1 2d31'),
           ('jlist_i128 ' + hx('[-1,2]'), 'ok 2 -1,2'), ('jobjparse ' + hx('{}'), 'ok 0'), ('jobjparse ' + hx('{\r\n\r\n}'), 'ok 0'),
           ('jlist_i128 ' + hx('[1,'), 'err'), ('jlist_u8 ' + hx('['), 'err'),
           ('jlist_bool ' + hx('[1,'), 'err'), ('jlist_string ' + hx('[1,'), 'err'), ('jlist_null ' + hx('x'), 'err'), ('jlist_f64 ' + hx('x'), 'err'),
           ('jrt doc {%s=f3ff0000000000000:31}' % hx('f1'), None), ('jrt doc {}', None), ('jrt doc {%s=i-5}' % hx('i1'), None),
           # F24d: a non-ASCII character in a string (witness of the finding first; 2-, 3-, 4-byte characters; names; nested; arrays)
           ('jlist_string ' + hx('["é"]'), 'ok 1 ' + hx('é')), ('jsplit ' + hx('["é"]'), 'ok 1 ' + hx('"é"')),
           ('jlist_string ' + hx('["é","€x","y\U0001F600"]'), 'ok 3 %s,%s,%s' % (hx('é'), hx('€x'), hx('y\U0001F600'))),
           ('jobjparse ' + hx('{"a": "é"}'), 'ok 1 ' + P('a', 'String', 's=' + hx('é'))),
           ('jobjparse ' + hx('{\r\n  "ключ": "€\U0001F600",\r\n  "b": true\r\n}'), 'ok 2 ' + P('ключ', 'String', 's=' + hx('€\U0001F600')) + ';' + P('b', 'bool', 'b=t')),
           ('jobjparse ' + hx('{"a": {"b": "é"}, "c": ["€"]}'), 'ok 2 ' + P('a', 'object', 'o=' + hx('{"b": "é"}')) + ';' + P('c', 'array', 'a=' + hx('["€"]'))),
           ('jsplit ' + hx('[{"b": "é"},["€"]]'), 'ok 2 %s,%s' % (hx('{"b": "é"}'), hx('["€"]'))),
           ('jrt doc {%s=s%s}' % (hx('s1'), hx('é')), None), ('jrt doc {%s=Astr[%s,%s]}' % (hx('astr'), hx('é€'), hx('\U0001F600')), None),
           ('jrt doc {%s=o{%s=s%s}}' % (hx('o1'), hx('s1'), hx('aé')), None), ('jrt doc {%s=Aobj[{%s=s%s}]}' % (hx('ao'), hx('s2'), hx('€b')), None),
           ('jsplit ' + hx('[nu€]'), 'err'), ('jsplit ' + hx('[é]'), 'err'), ('jobjparse ' + hx('{"a": é}'), 'err'),
           # F24f: a bracket inside a string of a nested value (witness of the finding first)
           ('jobjparse ' + hx('{"a": {"b": "}"}}'), 'ok 1 ' + P('a', 'object', 'o=' + hx('{"b": "}"}'))),
           ('jobjparse ' + hx('{\r\n  "a": ' + nested + '\r\n}'), 'ok 1 ' + P('a', 'object', 'o=' + hx(nested))),
           ('jobjparse ' + hx('{"a": {"b": "{"}, "c": 1}'), 'ok 2 ' + P('a', 'object', 'o=' + hx('{"b": "{"}')) + ';' + P('c', 'i128', 'i=1')),
           ('jobjparse ' + hx('{"a": ["]"], "c": ["["]}'), 'ok 2 ' + P('a', 'array', 'a=' + hx('["]"]')) + ';' + P('c', 'array', 'a=' + hx('["["]'))),
           ('jobjparse ' + hx('{"a": {"}": 1}}'), 'ok 1 ' + P('a', 'object', 'o=' + hx('{"}": 1}'))),
           ('jsplit ' + hx('[["]"],{"a": "}"}]'), 'ok 2 %s,%s' % (hx('["]"]'), hx('{"a": "}"}'))),
           ('jsplit ' + hx('[["["],{"a": "{"},1]'), 'ok 3 %s,%s,31' % (hx('["["]'), hx('{"a": "{"}'))),
           ('jrt doc {%s=o{%s=s%s}}' % (hx('o1'), hx('s1'), hx('}')), None), ('jrt doc {%s=Astr[%s,%s]}' % (hx('astr'), hx(']'), hx('[')), None),
           ('jrt doc {%s=Aobj[{%s=s%s},{%s=s%s}]}' % (hx('ao'), hx('s1'), hx('}'), hx('s2'), hx('{')), None),
           ('jrt doc {%s=o{%s=Astr[%s]}}' % (hx('o2'), hx('astr'), hx(']é')), None)]
    ri, rm = run_cmp(res, [l for l, _ in reg], 'Json regression cases')
    for (ln, want), a in zip(reg, ri):
        res.count('regression case of a repaired defect')
        if (want is not None and a != want) or (want is None and not a.endswith('# rt=same')):
            res.fail('regression:' + ln.split(' ')[0], ln, a, None, f'repaired defect is back (expected {want or "rt=same"})')

# ------------------------------------------------------------------ the byte level of the single-character read, std tables
def utf8_boundary_chars():
    return ['\x00', 'A', '\x7f', '\u0080', 'é', '\u07ff', '\u0800', '€', '\ud7ff', '\ue000', '\uffff', '\U00010000', '\U0001F600', '\U0010FFFF']

def byte_level_lines(rng, quick):
    """jreadchars: well-formed texts (every encoded length, boundaries), every truncation of them, every single byte, every two bytes with a
    non-ASCII first byte, the boundary three- and four-byte forms (overlong, surrogates, above U+10FFFF), a wrong byte at every position"""
    out = []
    texts = [''.join(utf8_boundary_chars()), 'aé€\U0001F600z', 'é', '€', '\U0001F600', '["é"]', '{"ключ": "\U0001F600}"}'] + \
            [''.join(rng.choice(NONASCII + ['a', '"', '}', ' ']) for _ in range(rng.range(1, 12))) for _ in range(20 if quick else 400)]
    for t in texts:
        b = t.encode()
        out.append(b)
        out += [b[:i] for i in range(len(b))]                                                   # truncated at every position (a lead byte at the very end included)
        for i in range(len(b)):                                                                   # one wrong byte at every position
            for v in (0x80, 0xbf, 0xc0, 0xc3, 0xe2, 0xed, 0xf0, 0xf4, 0xf5, 0xff, 0x41):
                if len(out) % (1 if not quick else 3) == 0 or len(b) < 8: out.append(b[:i] + bytes([v]) + b[i + 1:])
                else: out.append(b[:i] + bytes([v]) + b[i:])
    out += [bytes([x]) for x in range(256)]
    out += [bytes([x, y]) for x in range(0x80, 256) for y in (range(256) if not quick else list(range(0x7e, 0xc4)) + [0x00, 0x22, 0x41, 0xdf, 0xe0, 0xef, 0xf0, 0xf4, 0xf5, 0xff])]
    for lead in (0xe0, 0xe1, 0xec, 0xed, 0xee, 0xef):
        for b1 in (0x7f, 0x80, 0x9f, 0xa0, 0xbf, 0xc0):
            for b2 in (0x7f, 0x80, 0xbf, 0xc0): out.append(bytes([lead, b1, b2])); out.append(bytes([lead, b1, b2, 0x41]))
    for lead in (0xf0, 0xf1, 0xf3, 0xf4, 0xf5, 0xf7, 0xf8, 0xfc, 0xff):
        for b1 in (0x7f, 0x80, 0x8f, 0x90, 0xbf, 0xc0):
            for b2 in (0x7f, 0x80, 0xbf, 0xc0):
                for b3 in (0x7f, 0x80, 0xbf, 0xc0): out.append(bytes([lead, b1, b2, b3]))
    out += [rng.bytes(rng.range(1, 10)) for _ in range(300 if quick else 20000)]
    return ['jreadchars ' + hx(b) for b in out]

def check_byte_level(res, rng, quick):
    lines = ['jnumeric'] + byte_level_lines(rng, quick)
    impl, model = run_cmp(res, lines, 'Json single-character read (bytes) / std tables')
    for ln, a in zip(lines, impl):
        if ln == 'jnumeric':
            res.count('char::is_numeric table')
            import unicodedata
            # independent sanity oracle (CPython's Unicode database may be of another Unicode version: landmarks only)
            rs = [tuple(map(int, r.split('-'))) for r in a.split(' ')[1].split(',')] if a.startswith('ok ') else []
            inside = lambda u: any(lo <= u <= hi for lo, hi in rs)
            if not (inside(0x663) and inside(0xbd) and inside(0x2462) and not inside(0xe9) and not inside(0x20ac)):
                res.fail('is-numeric-landmarks', ln, a[:100], None, 'char::is_numeric landmarks')
            continue
        res.count('jreadchars')
        if not check_total(res, ln, a, 'json::read_utf8_char'): continue
        b = C.unhx(ln.split(' ')[1])
        try: want = 'ok ' + hx(b.decode('utf-8'))           # independent oracle: CPython's strict UTF-8 decoder
        except UnicodeDecodeError: want = 'err'
        if a != want:
            res.fail('read-utf8-char', ln, a[:100], None, f'the single-character read of the JSON scanners does not decode UTF-8 as the reference decoder does (expected {want[:60]})')

# ------------------------------------------------------------------ main
def run(res, tier, seed):
    rng = C.Rng(seed)
    quick = tier == 'quick'
    regression_cases(res)
    check_byte_level(res, rng.fork('bytes'), quick)
    # ---- phase 0: generate documents and value lists, collect floats, ask the real code for their Display
    n_docs = 900 if quick else 12000
    docs = []          # (kind_tag, doc)
    for i in range(n_docs):
        depth = i % 5
        strkind = 'plain'
        r = rng.below(20)
        if r in (0, 4): strkind = 'nonascii'
        elif r in (1, 5): strkind = 'bracket'
        elif r in (2, 3, 6): strkind = 'mixed'
        docs.append(('doc', gen_doc(rng, depth, strkind)))
    # every field kind alone, and absent: the 2^k presence patterns of the scalar fields at depth 0
    for mask in range(32):
        d = []
        for bit, (name, kind) in enumerate([('s1', 's'), ('b1', 'b'), ('i1', 'i'), ('f1', 'f'), ('o1', 'o')]):
            if mask >> bit & 1:
                v = {'s': 'text', 'b': True, 'i': -42, 'f': -1.5, 'o': [('i1', 'i', 7)]}[kind]
                d.append((name, kind, v))
        docs.append(('doc', d))
    flats = []
    for i in range(200 if quick else 3000):
        flats.append([('prop_a', 's', gen_str(rng, 'printable')), ('prop_b', 'b', rng.chance(1, 2)), ('prop_c', 'b', rng.chance(1, 2)),
                      ('prop_d', 'i', gen_int(rng, *INT_TYPES['i128'])), ('prop_e', 'f', gen_f64(rng))])
    flats.append([('prop_a', 's', ''), ('prop_b', 'b', False), ('prop_c', 'b', False), ('prop_d', 'i', 0), ('prop_e', 'f', -0.0)])
    # audit classes (forked generators: the random stream of the cases above is unchanged): every field alone / every pair of fields /
    # every field missing, nesting depth 0..4 through every link with full levels, arrays of objects up to length 64, strings that look
    # like other tokens / punctuation of the format / blanks at the ends / every printable character first and last / long strings,
    # twin fields, integers and floats at every power of two and ten
    G = sys.modules[__name__]
    n_random_docs = len(docs)
    docs += [('doc', d) for d in X.extra_docs(rng.fork('audit-docs'), G, quick)]
    flats += X.extra_flats(rng.fork('audit-flats'), G, quick)
    float_lists = [[gen_f64(rng) for _ in range(gen_len(rng))] for _ in range(150 if quick else 3000)]
    float_lists += [[x] for x in SPECIAL_F64] + [[-0.0], [0.0, -0.0, 1.0]]
    float_lists += X.extra_f64_lists(rng.fork('audit-f64'), G, quick)
    f32_lists = []
    for _ in range(60 if quick else 1500):
        f32_lists.append([struct.unpack('>f', struct.pack('>I', b))[0] for b in
                          [x for x in [rng.below(1 << 32) for _ in range(gen_len(rng))] if (x >> 23) & 0xff != 0xff]])
    f32_lists += X.f32_special_lists()
    fl = set()
    for _, d in docs: doc_floats(d, fl)
    for d in flats: doc_floats(d, fl)
    for l in float_lists: fl.update(f64_bits(x) for x in l)
    fl = sorted(fl)
    f32s = sorted({struct.unpack('>I', struct.pack('>f', x))[0] for l in f32_lists for x in l})
    ask = ['jfdisp ' + ','.join('%016x' % b for b in fl[i:i + 200]) for i in range(0, len(fl), 200)] + \
          ['jfdisp ' + ','.join('%08x' % b for b in f32s[i:i + 200]) for i in range(0, len(f32s), 200)]
    disp, disp32 = {}, {}
    got = C.run_impl(ask)
    for ln, a in zip(ask, got):
        bs = ln.split(' ')[1].split(',')
        if not a.startswith('ok '):
            res.fail('harness-jfdisp', ln[:80], a, None, 'could not obtain Display tokens'); return
        toks = a.split(' ')[2].split(',')
        for b, t in zip(bs, toks):
            (disp if len(b) == 16 else disp32)[int(b, 16)] = t
    # independent check of the float assumption on the tokens themselves: the token Rust printed means that value
    for b, t in disp.items():
        if float(C.unhx(t).decode()) != bits_f64(b):
            res.fail('display-not-roundtrip', 'jfdisp %016x' % b, t, None, 'CPython float(Display(x)) != x')

    # ---- phase 1: writers (typed lists) and struct round trips
    lines, meta = [], []
    def add(line, m): lines.append(line); meta.append(m)
    n_lists = 40 if quick else 600
    for ty, (lo, hi) in INT_TYPES.items():
        for xs in [[], [lo], [hi], [lo, hi], [0], [-1] if lo < 0 else [1], [1, -2] if lo < 0 else [1, 2], [lo] * 64]:
            add('jwrite_%s %s' % (ty, ','.join(map(str, xs)) or '~'), ('wint', ty, xs))
        for _ in range(n_lists):
            xs = [gen_int(rng, lo, hi) for _ in range(gen_len(rng))]
            add('jwrite_%s %s' % (ty, ','.join(map(str, xs)) or '~'), ('wint', ty, xs))
    for ty, xs in X.extra_int_lists(rng.fork('audit-int'), G, quick):
        add('jwrite_%s %s' % (ty, ','.join(map(str, xs)) or '~'), ('wint', ty, xs))
    for bs in X.extra_bool_lists(rng.fork('audit-bool'), G, quick):
        add('jwrite_bool ' + ','.join('t' if b else 'f' for b in bs), ('wbool', bs))
    for ss in X.extra_string_lists(rng.fork('audit-str'), G, quick):
        add('jwrite_string ' + (','.join(hx(s) for s in ss) or '~'), ('wstr', ss))
    for n in range(0, 65):
        add('jwrite_null %d' % n, ('wnull', n))
        bs = [rng.chance(1, 2) for _ in range(n)]
        add('jwrite_bool ' + (','.join('t' if b else 'f' for b in bs) or '~'), ('wbool', bs))
    for _ in range(n_lists * 3):
        kind = rng.choice(['plain', 'printable', 'mixed', 'bracket', 'nonascii', 'mixed'] if rng.chance(1, 3) else ['printable'])
        ss = [gen_str(rng, kind) for _ in range(gen_len(rng))]
        add('jwrite_string ' + (','.join(hx(s) for s in ss) or '~'), ('wstr', ss))
    for l in float_lists:
        add('jwrite_f64 ' + (','.join('%016x:%s' % (f64_bits(x), disp[f64_bits(x)]) for x in l) or '~'), ('wf64', l))
    for l in f32_lists:
        bs = [struct.unpack('>I', struct.pack('>f', x))[0] for x in l]
        add('jwrite_f32 ' + (','.join('%08x:%s' % (b, disp32[b]) for b in bs) or '~'), ('wf32', bs))
    for tag, d in docs: add('jrt doc ' + render_doc(d, disp), ('rt', d))
    for d in flats: add('jrt flat ' + render_doc(d, disp), ('rt', d))
    # JSONValue Display (all but floats), to_json_string on arbitrary (also mismatching) property lists
    types = ['String', 'bool', 'i128', 'f64', 'object', 'array', 'null', 'x', '']
    for _ in range(150 if quick else 2000):
        props = []
        for _ in range(rng.range(0, 5)):
            vals = []
            for k in ['s', 'b', 'i', 'f', 'o', 'a', 'n']:
                if rng.chance(1, 4):
                    if k == 's': vals.append('s=' + hx(gen_str(rng, 'printable')))
                    elif k == 'b': vals.append('b=' + rng.choice('tf'))
                    elif k == 'i': vals.append('i=%d' % gen_int(rng, *INT_TYPES['i128']))
                    elif k == 'f': x = rng.choice(fl); vals.append('f=%016x:%s' % (x, disp[x]))
                    elif k == 'o': vals.append('o=' + hx('{"k": 1}'))
                    elif k == 'a': vals.append('a=' + hx('[1,2]'))
                    else: vals.append('n')
            props.append('%s:%s:%s' % (hx(gen_str(rng, 'plain')), hx(rng.choice(types)), '|'.join(vals) or '-'))
        add('jobjwrite ' + (';'.join(props) or '-'), ('objwrite', None))
        v = [x for x in props[0].split(':', 2)[2].split('|') if not x.startswith('f=')] if props else []
        add('jvdisp ' + ('|'.join(v) or '-'), ('vdisp', None))
    # well-typed property lists with names and counts the harness structs do not have: written by JSON::to_json_string, judged by
    # CPython json, read back by JSON::parse_as_properties (phase 2)
    for ps in X.typed_props(rng.fork('audit-props'), G, quick, fl):
        spec = []
        for name, ty, k, v in ps:
            if k == 's': val = 's=' + hx(v)
            elif k == 'b': val = 'b=' + ('t' if v else 'f')
            elif k == 'i': val = 'i=%d' % v
            elif k == 'f': val = 'f=%016x:%s' % (v, disp[v])
            else: val = k + '=' + hx(v)
            spec.append('%s:%s:%s' % (hx(name), hx(ty), val))
        add('jobjwrite ' + (';'.join(spec) or '-'), ('objwrite', ps))
    impl, model = run_cmp(res, lines, 'Json writers / struct round trip')

    # ---- oracle on phase 1 + build phase 2 (readers on the texts the implementation wrote)
    lines2, meta2 = [], []
    for ln, m, a in zip(lines, meta, impl):
        if not check_total(res, ln, a, ln.split(' ')[0]): continue
        kind = m[0]
        if kind == 'objwrite' and m[1] is not None:
            res.count('property list round trip')
            ps = m[1]
            if not a.startswith('ok '):
                res.fail('writer-error:jobjwrite', ln[:300], a, None, 'unexpected result line'); continue
            text_hex = a.split(' ')[1]
            text = C.unhx(text_hex).decode('utf-8')
            try:
                got = json.loads(text, parse_float=str, parse_int=int)
                okv = isinstance(got, dict) and sorted(got.keys()) == sorted(p[0] for p in ps)      # the order of the members is not part of the meaning
                for name, ty, k, v in ps:
                    if not okv: break
                    if k in ('o', 'a'): okv = got[name] == json.loads(v, parse_float=str, parse_int=int)
                    elif k == 'f': okv = same_value(bits_f64(v), got[name])
                    else: okv = same_value(v, got[name])
                if not okv:
                    res.fail('valid-json-meaning', ln[:300], a[:200], None, 'json.loads(to_json_string(properties)) does not mean the properties')
            except ValueError as e:
                res.fail('not-valid-json', ln[:300], a[:200], None, f'to_json_string produced text the independent parser rejects: {e}')
            exp = []
            for name, ty, k, v in ps:
                if k == 's': val = 's=' + hx(v)
                elif k == 'b': val = 'b=' + ('t' if v else 'f')
                elif k == 'i': val = 'i=%d' % v
                elif k == 'f': val = 'f=%016x' % v
                else: val = k + '=' + hx(v)
                exp.append('%s:%s:%s' % (hx(name), hx(ty), val))
            lines2.append('jobjparse ' + text_hex); meta2.append(('objrt', exp))
            continue
        if kind in ('objwrite', 'vdisp'):
            res.count(kind); continue
        if not a.startswith('ok '):
            res.fail('writer-error:' + ln.split(' ')[0], ln[:300], a, None, 'a writer returned an error'); continue
        text_hex = a.split(' ')[1]
        text = C.unhx(text_hex).decode('utf-8')
        if kind == 'rt':
            d = m[1]
            # input classes of the repaired defects F24d / F24f: counted, judged like every other document
            cls = ' [non-ASCII string]' if has_nonascii(d) else ' [bracket in a nested string]' if nested_bracket(d) else ''
            res.count('struct round trip' + cls)
            try:
                got = json.loads(text, parse_float=str, parse_int=int)
                if not same_value(doc_py(d), got):
                    res.fail('valid-json-meaning', ln[:300], a[:200], None, 'json.loads(to_json_string(x)) does not mean x')
            except ValueError as e:
                res.fail('not-valid-json', ln[:300], a[:200], None, f'to_json_string produced text the independent parser rejects: {e}')
            rt = a.split(' # rt=')[1]
            ok_rt = rt == 'same' or (rt == 'sametext' and has_neg_zero(d))
            if not ok_rt:
                res.fail('struct-roundtrip', ln[:300], a[:200], None, f'parse(to_json_string(x)) != x (rt={rt})')
            continue
        # typed lists
        want = m[-1]
        try:
            got = json.loads(text, parse_float=str, parse_int=int)
        except ValueError as e:
            res.fail('not-valid-json', ln[:300], a[:200], None, f'list writer produced text the independent parser rejects: {e}'); continue
        if kind == 'wint': pyv, rd = want, 'jlist_' + m[1]
        elif kind == 'wnull': pyv, rd = [None] * want, 'jlist_null'
        elif kind == 'wbool': pyv, rd = want, 'jlist_bool'
        elif kind == 'wstr': pyv, rd = want, 'jlist_string'
        elif kind == 'wf64': pyv, rd = want, 'jlist_f64'
        else: pyv, rd = [struct.unpack('>f', struct.pack('>I', b))[0] for b in want], 'jlist_f32'
        if kind == 'wf32':
            okv = isinstance(got, list) and len(got) == len(want) and all(
                struct.pack('>f', float(g)).hex() == '%08x' % (b if b != 0x80000000 else 0) for g, b in zip(got, want))
        else:
            okv = same_value(pyv, got)
        if not okv:
            res.fail('valid-json-meaning', ln[:300], a[:200], None, 'json.loads(list text) does not mean the list')
        lines2.append(rd + ' ' + text_hex); meta2.append((kind, want))
    impl2, model2 = run_cmp(res, lines2, 'Json typed list readers')
    for ln, (kind, want), a in zip(lines2, meta2, impl2):
        if not check_total(res, ln, a, ln.split(' ')[0]): continue
        cls = ''
        if kind == 'objrt':
            got = norm_impl(ln, a).split(' ')        # `ok <n> <p1;p2;...>`; the properties are compared as a set of (name, type, value)
            if got[:2] != ['ok', str(len(want))] or sorted(got[2].split(';') if len(got) > 2 else []) != sorted(want):
                res.fail('property-list-roundtrip', ln[:300], a[:200], None, f'parse_as_properties(to_json_string(ps)) != ps; expected {";".join(want)[:200]}')
            continue
        if kind == 'wint': exp = 'ok 0' if not want else 'ok %d %s' % (len(want), ','.join(map(str, want)))
        elif kind == 'wnull': exp = 'ok %d' % want
        elif kind == 'wbool': exp = 'ok 0' if not want else 'ok %d %s' % (len(want), ','.join('t' if b else 'f' for b in want))
        elif kind == 'wstr':
            exp = 'ok 0' if not want else 'ok %d %s' % (len(want), ','.join(hx(s) for s in want))
            if any(not s.isascii() for s in want): cls = ' [non-ASCII string]'
            elif any(c in s for s in want for c in '{}[]'): cls = ' [bracket in a string]'
        elif kind == 'wf64':
            exp = 'ok 0' if not want else 'ok %d %s' % (len(want), ','.join('%016x' % f64_bits(x + 0.0 if x != 0 else 0.0) for x in want))
        else: exp = 'ok 0' if not want else 'ok %d %s' % (len(want), ','.join('%08x' % (b if b != 0x80000000 else 0) for b in want))
        res.count('list round trip ' + kind + cls)
        if a != exp:
            res.fail('list-roundtrip:' + ln.split(' ')[0], ln[:300], a[:200], None, f'parse_as_list(to_json(xs)) != xs; expected {exp[:200]}')

    # ---- phase 2b: the splitter on arrays whose elements are texts the real writers produced (arrays nested in arrays, objects, mixtures):
    # the library has no writer for an array of arrays, but the splitter's nested-array loop is reachable through its public entry point;
    # every element must come back verbatim, whatever its strings hold
    wr_arr = [C.unhx(ln.split(' ')[1]).decode() for ln, (k, _) in zip(lines2, meta2) if k != 'objrt']
    wr_str = [C.unhx(ln.split(' ')[1]).decode() for ln, (k, w) in zip(lines2, meta2) if k == 'wstr' and any(not x.isascii() or any(c in x for c in '{}[]') for x in w)]
    wr_obj = [C.unhx(a.split(' ')[1]).decode() for ln, a in zip(lines, impl) if ln.startswith('jrt ') and a.startswith('ok ')]
    r2 = rng.fork('nested-arrays')
    lines2b, meta2b = [], []
    for i in range(250 if quick else 4000):
        pool = wr_str if (i % 2 == 0 and wr_str) else wr_arr if i % 3 else wr_arr + wr_obj
        items = [r2.choice(pool) for _ in range(r2.choice([1, 1, 2, 3, 5]))]
        if sum(map(len, items)) > 4000: continue
        sep = r2.choice([',', ',', ', ', ',\r\n'])
        lines2b.append('jsplit ' + hx('[' + sep.join(items) + ']')); meta2b.append(items)
    impl2b, _ = run_cmp(res, lines2b, 'Json splitter on arrays of written values')
    for ln, items, a in zip(lines2b, meta2b, impl2b):
        res.count('jsplit array of written arrays / objects')
        if not check_total(res, ln, a, 'jsplit'): continue
        text = C.unhx(ln.split(' ')[1]).decode()
        try:
            if json.loads(text, parse_float=str) != [json.loads(t, parse_float=str) for t in items]:
                res.fail('harness-nested-array', ln[:200], a[:100], None, 'generator: the outer text does not mean the list of its elements')
        except ValueError: pass          # -0 / inf tokens of float lists: not this oracle's business
        exp = 'ok %d %s' % (len(items), ','.join(hx(t) for t in items))
        if a != exp:
            res.fail('split-nested:jsplit', ln[:300], a[:200], None, f'the splitter does not hand back the nested values verbatim; expected {exp[:200]}')

    # ---- phase 3: readers / scanners on arbitrary and malformed text (differential + totality)
    objs, arrs = repo_corpus()
    res.count('repository test documents', len(objs) + len(arrs))
    valid_obj = [C.unhx(a.split(' ')[1]).decode() for ln, a in zip(lines, impl) if ln.startswith('jrt ') and a.startswith('ok ')]
    valid_arr = [C.unhx(ln.split(' ')[1]).decode() for ln in lines2 if not ln.startswith('jobjparse ')]
    hand_obj = ['{"a": -5}', '{"a": 5}', '{}', '{\r\n\r\n}', '{"a": "é"}', '{"a": 1.5e-3, "b": -0.0}', '{"a:b": 1}', '{"a": "x:y"}', '{"a": "x\\"y"}', '{"a": "x\\\\"}',
                '{"a": {"b": {"c": [1, {"d": null}]}}}', '{"a": [1, 2, [3]], "b": true}', '{"a" : null , "b":false}', ' {"a": 1}', '{"a": 1 }', '{"a": 1 2}', '{"a": 1.2.3}',
                '{"a": 1e5e5}', '{"a": --1}', '{"a": +1}', '{"a": nul}', '{"a": nulll}', '{"a": truex}', '{"a": "b" x}', '{"a": "b"}, "c": 1}', '{"a": 1}, "c": 2}',
                '{"a": 1, }', '{"a": 1,}', '{"a": "b",}', '{"a": "b", }', '{"a": [}', '{"a": {}', '{"a": ]}', '{"a": inf}', '{"a": NaN}', '{"a": -inf}', '{"a": 0x10}',
                '{"\u00a0a": 1}', '{"a\u00a0": "b"}', '{"a":\u00a01}', '{"a": "}"}', '{"a": {"b": "}"}}', '{"a": ["]"]}', '{"a": 170141183460469231731687303715884105728}',
                '{"a": -170141183460469231731687303715884105728}', '{"a": -170141183460469231731687303715884105729}', '{"a": 1e400}', '{"a": 00012}', '{"a": -0}', '{"a": 1.}',
                '{"a": .5}', '{"a": 1e}', '{"a": -}', '{"a": -e}', '{"a": e}', '{"a": 5e-324}', '{"a": "\t"}', '{\t"a"\t:\t1\t}', '{"a": \x7f1}', '"a": 1}', '{a: 1}', "{'a': 1}"]
    hand_obj += ['{"a": ٣}', '{"a": 1٣}', '{"a": ½}', '{"a": -٣}', '{"a"\u00a0: 1}', '{"a": "é}', '{"a": {"b": "é}', '{"a": ["é]', '{"a": {"b": "}}', '{"a": {"b": "x\\"}"}}', '{"a": {"b\\": 1}}',
                 '{"a": {"b": "\\"}}', '{"a": ["\\"]"]}', '{"a": ["x\\"]}', '{"a": {"}": "{"}}', '{"a": {"b": "}"}, "c": {"d": "{"}}', '{"a": [{"b": "]"}], "c": "["}', '\u3000{"a": 1}', '{"a": 1}\u3000',
                 '{"é": 1}', '{"é": "€", "\U0001F600": [1, "]"]}', '{"a": "é", }', '{"a": "é" é}', '{"a": "é"é}', '{"a": né}', '{"a": tré}', '{"a": [é]}', '{"a": {é}}', '{"a": 1é}', '{"a": -é}',
                 '{"a": "\U0001F600', '{"a": {"b": "\U0001F600', '{"a\U0001F600', '{"a": "x" }é', '{"a": 1 }é', '{"a": nullé}', '{"a": "€",\u00a0"b": 1}']
    hand_arr = ['[٣]', '[1٣]', '[½,٣]', '[-٣]', '[٣ ]', '[٣ ,1]', '[1,٣.٣]', '\u00a0[1]', '\u3000[1]\u3000', '[1]\u0085', '[1]\u2028\u2029', '[\u00a01]', '[1\u00a0]', '[1,\u00a02]', '\u0085\u1680[]',
                '["é","€","\U0001F600"]', '["é]', '["é', '["\U0001F600', '[["é"]', '[{"a": "é"}', '[["]"]', '[{"a": "}"}', '[["\\"]"]]', '[["x\\"]]', '[{"a\\": 1}]', '[{"a": "\\"}"}]',
                '[["]"],["["]]', '[{"}": "{"},["[","]"]]', '[[é]]', '[{é}]', '[["é"],{"k": "€"}]', '[ "é" ,"€"]', '["é" ]', '["é"x]', '[né]', '[tré]', '[falsé]', '[nul\U0001F600]', '[n\U0001F600]',
                '[-1,2]', '[1,-2]', '[-1]', '["é"]', '[é]', '[1,', '[nu€]', ' é[', '[1]é', '[1é]', '[[é]]', '[{é}]', '[1 é]', '[falsé]', '[ --35346, 456, 6,7 ,8]',
                '[  123, 456 6,7 ,8  ]', '[1 ,2]', '[1  ,2]', '[1 ]', '[1 2]', '["a" ,"b"]', '["a""b"]', '[,,,]', '[,1,]', '[1,,2]', '["a\\"b"]', '["a\\\\"]', '["a\\"]',
                '[true,false,null]', '[truefalse]', '[nullnull]', '[1e5]', '[1e-5]', '[-1e-5]', '[1.5.5]', '[1ee5]', '[1-2-3]', '[-1-2]', '[+1]', '[.5]', '[1.]', '[{"a": [1]}, [2, {"b": 3}]]',
                '["]"]', '[["]"]]', '[{"a": "}"}]', '\t[1]\n', '[1]\n\n', '[\n1\n]', '[\t1]', '[1\t]', '[1\n,2]', '[\x7f]', '[\x001]', '[" "]', '[ "a" ]', '[" a "]', '["\u00a0"]',
                '[0]', '[00]', '[-0]', '[256]', '[-129]', '[340282366920938463463374607431768211456]', '[inf]', '[nan]', '[NaN]', '[-inf]', '[1_0]', '[0x1]', '[1E5]', '[ ]', '[]x', '[] ', ' []']
    hand_prop = ['"é": "€"', '"\U0001F600": 1', '"a": ٣', '"a": "é', '"a": é', '"a": {"b": "}"}', '"a": ["]"]', '\u3000"a": 1\u3000', '"a]": "[b"', '"a": "}"', '"{": 1',
                 '"a": 1', 'a: 1', '"a":1', ' "a" : "b" ', '"a": null', '"a": nan', '"a": inf', '"a": -Infinity', '"a": +1', '"a": 1e5', '"a": 1E5', '"a": .5', '"a": 1.', '"a": .',
                 '"a": "', '"a": ""', '"a": [', '"a": []', '"a": {}', '"a": {', '"a": true', '"a": True', '"a": ', '"a":', ':', '', 'abc', '"a:b": 1', '"a": "b:c"', '"a": "b\\"c"',
                 '\u00a0"a"\u00a0:\u00a0"b"\u00a0', '"a": 1_0', '"a": 0x10', '"a": 1e', '"a": e1', '"a": -', '"a": +', '"a": 1e+5', '"a": 1e-5', '"a": -0', '"a": -0.0', '"a": NaN',
                 '"a": infinity', '"a": INF', '"a": 99999999999999999999999999999999999999999', '"a": 170141183460469231731687303715884105727', '"a": [1', '"a": 1]', '"a"": 1']
    lines3, meta3 = [], []
    def add3(op, b, origin):
        lines3.append(op + ' ' + hx(b)); meta3.append((op, origin))
    list_ops = ['jlist_' + t for t in list(INT_TYPES) + ['bool', 'string', 'null', 'f64', 'f32']]
    for t in hand_obj: add3('jobjparse', t.encode(), 'hand')
    for t in hand_prop:
        add3('jprop', t.encode(), 'hand')
        add3('jobjparse', ('{' + t + '}').encode(), 'hand')
    for t in hand_arr:
        add3('jsplit', t.encode(), 'hand')
        for op in list_ops: add3(op, t.encode(), 'hand')
    for t in objs:
        add3('jobjparse', t.encode(), 'repo-test')
        for mtx in mutations(rng.fork('o' + t[:20]), t, 4 if quick else 60, every_truncation=(len(t) < 400 and not quick) or len(t) < 120):
            add3('jobjparse', mtx, 'repo-test mutated')
    for t in arrs:
        add3('jsplit', t.encode(), 'repo-test')
        for mtx in mutations(rng.fork('a' + t[:20]), t, 4 if quick else 60, every_truncation=len(t) < 200):
            add3('jsplit', mtx, 'repo-test mutated')
            add3(rng.choice(list_ops), mtx, 'repo-test mutated')
    rng.shuffle(valid_obj); rng.shuffle(valid_arr)
    short_obj = sorted(valid_obj, key=len)
    for t in short_obj[:6] + [x for x in short_obj if 150 < len(x) < 400][:3 if quick else 30]:
        for mtx in mutations(rng.fork('v' + t[:30]), t, 20 if quick else 300, every_truncation=True):
            add3('jobjparse', mtx, 'valid mutated')
    for t in valid_obj[:150 if quick else 3000]:
        for mtx in mutations(rng.fork('w' + t[:30]), t, 6 if quick else 12, every_truncation=False):
            add3('jobjparse', mtx, 'valid mutated')
    for t in sorted(set(valid_arr), key=len)[:12] + valid_arr[:120 if quick else 3000]:
        for mtx in mutations(rng.fork('x' + t[:30]), t, 6 if quick else 12, every_truncation=len(t) < 40):
            add3('jsplit', mtx, 'valid mutated')
            add3(rng.choice(list_ops), mtx, 'valid mutated')
    # valid texts in another layout (line ends LF / CR / none / doubled, tabs, no blank after the colon, blanks around the comma, BOM):
    # not what the writer produces, so outside the round trip - the two sides are compared, and no entry point may panic
    for t in sorted(valid_obj[:400], key=len)[:20 if quick else 150] + valid_obj[:10 if quick else 150]:
        for v in X.relayout_object(t): add3('jobjparse', v.encode(), 'valid, other layout')
    for t in sorted(set(valid_arr), key=lambda x: (len(x), x))[5:25 if quick else 150] + valid_arr[:15 if quick else 300]:
        for v in X.relayout_array(t):
            add3('jsplit', v.encode(), 'valid, other layout'); add3(rng.choice(list_ops), v.encode(), 'valid, other layout')
    # key/value pairs cut out of valid documents, for JSONProperty::parse
    for t in valid_obj[:200 if quick else 3000]:
        for piece in t.strip('{}\r\n').split(',\r\n')[:6]:
            add3('jprop', piece.encode(), 'pair of a valid document')
            if rng.chance(1, 3):
                p = rng.range(0, len(piece)); add3('jprop', (piece[:p] + rng.choice(['"', ':', ' ', '\u00a0', 'é', '-', 'e', '.', '{', '[']) + piece[p:]).encode(), 'pair mutated')
    for b in pathological(tier):
        add3('jobjparse', b, 'pathological'); add3('jsplit', b, 'pathological'); add3(rng.choice(list_ops), b, 'pathological')
    for _ in range(300 if quick else 20000):
        n = rng.range(0, 24)
        b = ''.join(rng.choice('{}[]",:\\ \r\n\t-+.e0123456789ntfalsru' + 'éx€\U0001F600٣\u00a0') for _ in range(n)).encode()
        add3(rng.choice(['jobjparse', 'jsplit', 'jprop'] + list_ops[:3]), b, 'random')
    # small exhaustive sub-space: every string of length <= L over a delimiter alphabet, through the splitter and the object scanner
    import itertools
    L = 4 if quick else 5
    for n in range(0, L + 1):
        for tup in itertools.product('[]",1- n' + 'é\\', repeat=n):
            add3('jsplit', ''.join(tup).encode(), 'exhaustive')
    for n in range(0, L):
        for tup in itertools.product('{}":1,- ' + 'é\\[]', repeat=n):
            add3('jobjparse', ('{"' + ''.join(tup)).encode(), 'exhaustive')
    impl3, model3 = run_cmp(res, lines3, 'Json readers on arbitrary text')
    for ln, (op, origin), a in zip(lines3, meta3, impl3):
        res.count('%s %s' % (op if not op.startswith('jlist_') else 'jlist_*', origin))
        check_total(res, ln, a, op)
        if a not in ('err', 'badutf8') and not a.startswith('ok') and not a.startswith('panic') and not a.startswith('abort'):
            res.fail('harness-protocol', ln[:200], a[:100], None, 'unexpected result line')

    res.notes.append('audit classes (vlib/gen_c19.py): %d documents on top of the %d random ones; property lists with free names' % (len(docs) - n_random_docs, n_random_docs))
    res.rule = ('regression cases of the repaired defects first; typed lists: every integer width x {empty, extremes, random lengths 0..64} written by the real writer, checked by CPython json, read back by the '
                'real reader; bool/null lists of every length 0..64; string lists (printable text without quote/backslash: ASCII, brackets, non-ASCII of every encoded length); '
                'f64/f32 lists by bit pattern; structs Flat and Doc (25 optional fields of every kind, nesting depth 0..4, all 32 presence patterns of the scalar '
                'fields); audit classes: every field alone / every pair of fields / every field missing, depth 0..4 through every link kind with full levels, '
                'arrays of objects up to 64 elements, strings that look like other tokens, format punctuation, blanks at the ends, every printable character first and '
                'last, strings up to 4 097 characters (thorough 65 537), twin fields, integers and floats at every power of two and ten with neighbours, every list '
                'length 0..64, repeated values in every list type, f32 limits, well-typed property lists with free identifier names and 0..64 members through '
                'to_json_string / CPython json / parse_as_properties; readers on the repository test documents, valid texts in other layouts, hand-written edge cases, every truncation and random mutations of valid texts, '
                'pathological inputs (nesting 10 000, 100 kB tokens), random delimiter soup and all strings of length <= %d over a 10-letter delimiter alphabet (a non-ASCII letter and the backslash included); '
                'strings with 2-, 3- and 4-byte characters and with every bracket first / middle / last / alone, as field values, names, in nested objects (depth 1..3), arrays of strings and arrays of objects; '
                'the single-character read of the scanners on arbitrary bytes (every truncation, a wrong byte at every position, boundary forms) against the UTF-8 decoder of CPython; '
                'a case is non-trivial when its input is not empty; distinct = distinct protocol lines' % L)
    res.exhaustive = 'all texts of length <= %d over {[ ] " , 1 - space n é \\} through the splitter; all "{\\"" + texts of length < %d over {{ }} " : 1 , - space é \\ [ ]}} through the object scanner; every single byte and every byte pair with a non-ASCII first byte through the single-character read' % (L, L)
    k = next(i for i, l in enumerate(lines) if l.startswith('jrt doc') and len(l) > 200)
    res.sample({'op': lines[k][:300], 'implementation': impl[k][:300], 'model': model[k][:300]})
    k = next(i for i, m in enumerate(meta3) if m[1] == 'valid mutated')
    res.sample({'op': lines3[k][:200], 'implementation': impl3[k][:200], 'model': model3[k][:200]})
    if lines2: res.sample({'op': lines2[5][:200], 'implementation': impl2[5][:200], 'model': model2[5][:200]})
