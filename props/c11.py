"""C11 — cross-origin grants follow the configuration exactly.
Correspondence: Cors::get_headers / process_using_default_config / allow_all / _process (real
code, with the process environment set per case) vs Rws.Cors (Lean model, environment as a
parameter).  Oracle on the implementation alone, written from the property statement:
exact membership of the Origin in the comma-split configuration, grants = configuration.
The same oracle judges the Access-Control-* headers of whole responses of the server entry points
(serve mode of the harness, one process per configuration), and those responses are compared with the composed server model -
the tie of the server-level theorems in RwsProofs/C11Server.lean.
Input classes added by the generator audit: vlib/gen_c11.py (table: audit/C11/AUDIT.md).
Second audit pass (audit/C11/AUDIT2.md): feature-style classes - `codec_cases2` / `feature_plan` of vlib/gen_c11.py; props/c11_features.py reads the bytes the
peer received as a STREAM of answers and judges every one of them (interim answers, the answer to a second request of the same read) with the same `want_get`.
VERIF_C11_PASS=1 runs the check without the second pass; VERIF_C11_TRUNCATED=1 adds the inputs of the finding reported there (an Origin header cut by the end of
the request buffer is taken for the whole header) - they fail on the unchanged code and are therefore not in the default run."""
import itertools, unicodedata, threading, os
from vlib import common as C, gen_c11 as X
from props import c11_features as F2

DRIVERS = ['Cors', 'Serve']   # model driver files this check runs: scopes translator failures to the tables they (and the proofs) import
TRUSTED = ['Rust std: env::var (Err for absent or non-Unicode), str::parse::<bool>, str::split, Vec::contains, [String]::join (modelled in Rws.Cors)',
           'Rust std str::to_lowercase: per-scalar tables probed from the toolchain by translator/gens/cors.py (Rws.Gen.Unicode); algorithm (UTF-8, Final_Sigma) hand-written in Rws.Unicode and tied by this differential run (every scalar value in thorough)',
           'harness sets/removes the RWS_CONFIG_CORS_* process variables per case and restores them (single-threaded codec loop)']
ASSUMPTIONS = ['protocol glue: hex fields, environment rendering name=value, Cors struct rendering',
               'environment values hold no NUL byte and names no "=" (cannot exist in a process environment)',
               'independent oracle: Python str.split / list membership; str.lower() only for strings over ASCII + a fixed pool of pre-Unicode-14 characters',
               'whole responses: requests are well formed with header values the request parser leaves unchanged (no edge blanks, no control characters), so the Origin the server sees is the Origin sent',
               'second pass, stream reading: the bodies of that campaign (its own files, the server\'s pages and error texts) hold no status line, so every `HTTP/1.x ddd ` in the received bytes starts an answer; '
               'optional white space (blank, tab) around the Origin value is not part of the value (RFC 9110): such a request earns at most what the stripped value earns']

V = {k: 'RWS_CONFIG_CORS_' + k for k in ['ALLOW_ALL', 'ALLOW_ORIGINS', 'ALLOW_CREDENTIALS', 'ALLOW_HEADERS', 'ALLOW_METHODS', 'EXPOSE_HEADERS', 'MAX_AGE']}
H = dict(o='Access-Control-Allow-Origin', c='Access-Control-Allow-Credentials', m='Access-Control-Allow-Methods',
         h='Access-Control-Allow-Headers', e='Access-Control-Expose-Headers', x='Access-Control-Max-Age')
GRANT_NAMES = set(H.values())
# characters on which CPython's (Unicode 14) str.lower() is known to coincide with current Unicode
POOL = '\u0130\u03a3\u03c3\u03c2\u0391\u03b1\u00df\u01c5\u01c4\u212a\u212b\u00c9\u00e9\u0301\u00ad\u2019\u1ffc\u2126\u0390\u01c6\u00e5\u03c9\u1ff3\u0307'
SAFE = set(map(chr, range(128))) | set(POOL)

def b(s): return s.encode('utf-8') if isinstance(s, str) else s
_HX = {}
def hx(s):
    """hex field of a text / byte string (memoised: the same names and settings recur in tens of thousands of lines)"""
    r = _HX.get(s)
    if r is None:
        r = C.hx(b(s))
        if len(s) < 256: _HX[s] = r
    return r

def req_fields(method, headers, body=b'', uri='/x', version='HTTP/1.1'):
    hs = ','.join(hx(n) + ':' + hx(v) for n, v in headers) or '-'
    return f'{hx(method)} {hx(uri)} {hx(version)} {hs} {hx(body)}'
def env_field(pairs):
    return ','.join(hx(n) + '=' + hx(v) for n, v in pairs) or '_'
def cors_field(c):
    lst = lambda xs: ','.join(hx(x) for x in xs) if xs else '_'
    return ';'.join(['1' if c['all'] else '0', lst(c['origins']), lst(c['methods']), lst(c['headers']),
                     '1' if c['cred'] else '0', lst(c['expose']), hx(c['maxage'])])

def parse_headers(out):
    """`ok <headers>` -> [(name bytes, value bytes)] or None"""
    if not out.startswith('ok '): return None
    f = out[3:]
    if f == '-': return []
    res = []
    for h in f.split(','):
        n, v = h.split(':')
        res.append((C.unhx(n), C.unhx(v)))
    return res

# ------------------------------------------------------------------ the oracle (independent of the model)
def is_text(x):
    try: x.decode('utf-8'); return True
    except UnicodeDecodeError: return False

def env_get(pairs, name):
    """std::env::var(name).ok(): first binding wins in our rendering; non-Unicode reads as unset"""
    for n, v in pairs:
        if b(n) == b(name):
            v = b(v)
            return v.decode('utf-8') if is_text(v) else None
    return None

def lower(s):
    """(value, checked): Rust to_lowercase where Python's is trusted to coincide"""
    if all(ch in SAFE for ch in s): return s.lower(), True
    return None, False

def find_header(headers, name):
    for n, v in headers:
        if n.lower() == name.lower(): return v
    return None

def want_allow_all(method, headers):
    o = find_header(headers, 'Origin')
    if o is None: return []
    w = [(H['o'], o), (H['c'], 'true')]
    if method == 'OPTIONS':
        m = find_header(headers, 'Access-Control-Request-Method')
        if m is not None: w.append((H['m'], m))
        rh = find_header(headers, 'Access-Control-Request-Headers')
        if rh is not None:
            l, ok = lower(rh)
            w += [(H['h'], l), (H['e'], l)]
        w.append((H['x'], '86400'))
    return w

def want_default(pairs, method, headers):
    o = find_header(headers, 'Origin')
    if o is None: return []
    configured = [p for p in (env_get(pairs, V['ALLOW_ORIGINS']) or '').split(',') if p != '']
    if o not in configured: return []
    w = [(H['o'], o)]
    if env_get(pairs, V['ALLOW_CREDENTIALS']) == 'true': w.append((H['c'], 'true'))
    if method == 'OPTIONS':
        m = env_get(pairs, V['ALLOW_METHODS'])
        if m is not None: w.append((H['m'], m))
        for key, var in (('h', 'ALLOW_HEADERS'), ('e', 'EXPOSE_HEADERS')):
            v = env_get(pairs, V[var])
            if v is not None: w.append((H[key], lower(v)[0]))
        x = env_get(pairs, V['MAX_AGE'])
        if x is not None: w.append((H['x'], x))
    return w

def want_get(pairs, method, headers):
    if env_get(pairs, V['ALLOW_ALL']) == 'false':
        return want_default(pairs, method, headers)
    return want_allow_all(method, headers)

def want_process(c, method, headers):
    o = find_header(headers, 'Origin')
    if o is None or o not in c['origins']: return []
    w = [(H['o'], o)]
    if c['cred']: w.append((H['c'], 'true'))
    if method == 'OPTIONS':
        w += [(H['m'], ','.join(c['methods'])), (H['h'], lower(','.join(c['headers']))[0]),
              (H['e'], lower(','.join(c['expose']))[0]), (H['x'], c['maxage'])]
    return w

def judge(res, entry, line, out, want):
    """compare the implementation's answer with the expected grants (as a set of name/value; a
    value of None = lower-casing outside the oracle's trusted range: only the name is checked)"""
    if out.startswith('panic') or out.startswith('abort'):
        res.fail('panic:' + out.split(' ', 1)[1], line, out, None, f'{entry} panicked'); return
    got = parse_headers(out)
    if got is None:
        res.fail(entry + ':not-ok', line, out, None, 'expected a header list'); return
    for n, _ in got:
        if n.decode('utf-8', 'replace') not in GRANT_NAMES:
            res.fail(entry + ':foreign-header', line, out, None, f'header {n!r} is not a cross-origin grant header'); return
    if len({n for n, _ in got}) != len(got):
        res.fail(entry + ':duplicate-grant', line, out, None, 'a grant header is repeated'); return
    w = {b(n): (b(v) if v is not None else None) for n, v in want}
    g = dict(got)
    if not w and g:
        res.fail(entry + ':granted-unexpectedly', line, out, None, 'grants sent although the Origin is absent / not one of the configured origins'); return
    if w and not g:
        res.fail(entry + ':grant-missing', line, out, None, f'expected grants {want}'); return
    if set(w) != set(g) or any(v is not None and g[n] != v for n, v in w.items()):
        res.fail(entry + ':wrong-grants', line, out, None, f'expected exactly {want}'); return

# ------------------------------------------------------------------ whole responses (real entry points vs the composed server model; oracle = the same `want_get`)
def run_server(plan):
    """one `serve` harness process per environment: [(label, pairs, descriptor, Case, parsed result)]"""
    from vlib import serve as S, servecheck as K
    out = [None] * len(plan)
    def work(i):
        label, pairs, reqs = plan[i]
        tree = S.Tree('root')
        tree.file('root/file.txt', b'0123456789' * 30).file('root/sub/page.html', b'<p>page</p>').file('secret.txt', b'above the root')
        cases = [K.mk(tree, d['method'], d['target'].replace('/FILE', '/file.txt'), d['headers'], body=d['body'], version=d['version'], entry=d['entry'], kind=d['kind']) for d in reqs]
        env = [(k, v) for k, v in S.DEFAULT_ENV if not k.startswith('RWS_CONFIG_CORS')] + list(pairs)
        rs = K.run_batches([(tree, cases)], with_model=True, env=env)
        out[i] = [(label, pairs, d, c, r, il, ml) for d, (c, r, il, ml) in zip(reqs, rs)] if tree.setup_ok else 'setup failed: ' + label
    ts = [threading.Thread(target=work, args=(i,)) for i in range(len(plan))]
    for t in ts: t.start()
    for t in ts: t.join()
    return out

def judge_server(res, outs):
    from vlib import servecheck as K
    if outs is None:
        res.fail('server:not-run', 'serve mode', None, None, 'the whole-server run did not finish'); return
    for group in outs:
        if not isinstance(group, list):
            res.fail('server:setup', str(group), None, None, 'tree / environment of the whole-server run could not be set up'); continue
        for label, pairs, d, c, r, il, ml in group:
            res.evaluations += 1
            if ml is not None:
                # the tie of the server-level theorems (C11Server.lean): the composed server model answers the same bytes
                res.programs += 1
                if il != ml: res.disagree(f'serve mode; env {env_field(pairs)}; {c.line[:400]}', il[:300], ml[:300], 'Server (CORS grants in whole responses)')
            res.count('server: ' + d['kind']); res.count('server env: ' + label)
            case = f'serve mode; env {env_field(pairs)}; {c.line[:600]}'
            res.distinct.add(hash(case))
            head = r['head']
            if head.startswith(('panic', 'abort')):
                res.fail('server:panic:' + head.split(' ', 1)[-1][:80], case, head, None, f'the server entry point {c.entry} panicked on {c.raw[:120]!r}'); continue
            full = r['writes'][0] if r['writes'] else b''
            if not full:
                res.count('server: no response'); continue
            resp, why = K.parse_resp(full)
            if resp is None:
                # not a well-formed response (C05's subject); the head is still searched for grant lines
                headers = [tuple(x.strip() for x in ln.split(b':', 1)) for ln in full.split(b'\r\n\r\n')[0].split(b'\r\n')[1:] if b':' in ln]
                headers = [(n.decode('latin1'), v.decode('latin1')) for n, v in headers]
            else:
                headers = resp['headers']
            got = [(n, v.encode('latin1')) for n, v in headers if n.lower().startswith('access-control-')]
            want = want_get(pairs, d['method'], [(n, v) for n, v in d['headers']])
            shown = str([(n, v.decode('utf-8', 'replace')) for n, v in got])[:300]
            canon = {n.lower(): n for n in GRANT_NAMES}
            if any(n.lower() not in canon for n, _ in got):
                res.fail('server:foreign-grant', case, shown, None, f'{label}: a response carries an Access-Control-* header that is not one of the six grants'); continue
            if len({n.lower() for n, _ in got}) != len(got):
                res.fail('server:duplicate-grant', case, shown, None, f'{label}: a grant header is repeated in the response'); continue
            w = {n.lower(): (b(v) if v is not None else None) for n, v in want}
            g = {n.lower(): v for n, v in got}
            if not w and g:
                res.fail('server:granted-unexpectedly', case, shown, None, f'{label}: {d["method"]} {d["target"]} {d["headers"]}: grants in the response although the Origin is absent / not one of the configured origins'); continue
            if not d['strict']:
                # an answer built without the request: it may carry no grants, but what it carries must be what the request earns
                if any(n not in w or (w[n] is not None and w[n] != v) for n, v in g.items()):
                    res.fail('server:wrong-grants', case, shown, None, f'{label}: expected at most {want}')
                continue
            if w and not g:
                res.fail('server:grant-missing', case, shown, None, f'{label}: {d["method"]} {d["target"]} {d["headers"]}: expected grants {want}'); continue
            if set(w) != set(g) or any(v is not None and g[n] != v for n, v in w.items()):
                res.fail('server:wrong-grants', case, shown, None, f'{label}: {d["method"]} {d["target"]} {d["headers"]}: expected exactly {want}'); continue
            res.count('server expected: grants' if w else 'server expected: no grants')

# ------------------------------------------------------------------ generators
CONF = ['https://foo.example', 'https://bar.example', 'http://localhost:8080', 'https://a.b']
ORIGIN_KINDS = [
    ('configured-first', 'https://foo.example'), ('configured-other', 'https://bar.example'), ('configured-last', 'https://a.b'),
    ('prefix', 'https://foo'), ('suffix', 'foo.example'), ('substring', 'foo'), ('case-variant', 'HTTPS://FOO.EXAMPLE'),
    ('empty', ''), ('two-joined', 'https://foo.example,https://bar.example'), ('spanning', 'example,https'),
    ('unrelated', 'https://evil.example'), ('superstring', 'https://foo.example.evil'), ('absent', None)]
SWITCH = [('true', 'true'), ('false', 'false'), ('unset', None), ('TRUE', 'TRUE'), ('yes', 'yes'), ('empty', '')]
CRED = [('true', 'true'), ('false', 'false'), ('unset', None), ('junk', 'True ')]
METHODS = ['GET', 'POST', 'OPTIONS', 'HEAD']
PREFLIGHT = [('Access-Control-Request-Method', 'PUT'), ('access-control-request-headers', 'X-Custom, Content-Type')]
LISTS = [dict(ALLOW_METHODS='GET,POST,OPTIONS', ALLOW_HEADERS='Content-Type,X-Custom-Header', EXPOSE_HEADERS='X-Total', MAX_AGE='600'),
         dict(ALLOW_METHODS='', ALLOW_HEADERS=None, EXPOSE_HEADERS='', MAX_AGE=None)]

def run(res, tier, seed):
    rng = C.Rng(seed)
    # whole-server observation (section 5c below): started first, it runs beside the generation and the codec run
    server_out = {}
    plan = X.server_plan(rng.fork('server'), tier)
    th = threading.Thread(target=lambda: server_out.__setitem__('r', run_server(plan)))
    th.start()
    # second audit pass (audit/C11/AUDIT2.md): feature-style classes at server level, the received bytes judged as a stream of answers
    stream_out = {}
    second = os.environ.get('VERIF_C11_PASS', '2') != '1'          # VERIF_C11_PASS=1: the check as it was before the second pass (to see what a change escapes without it)
    plan2 = X.feature_plan(rng.fork('features'), tier) if second else []
    th2 = threading.Thread(target=lambda: stream_out.__setitem__('r', F2.run_plan(plan2)))
    th2.start()
    lines, meta = [], []          # meta: (entry, want, class)
    def add(line, entry, want, cls):
        lines.append(line); meta.append((entry, want, cls))
    def get(pairs, method, headers, cls, op='corsget', **rq):
        want = (want_get if op == 'corsget' else want_default)(pairs, method, headers)
        add(f'{op} {env_field(pairs)} {req_fields(method, headers, **rq)}', 'get_headers' if op == 'corsget' else 'process_using_default_config', want, cls)
    def proc(c, method, headers, cls, **rq):
        add(f'corsproc {cors_field(c)} {req_fields(method, headers, **rq)}', '_process', want_process(c, method, headers), cls)
    def allow_all(method, headers, cls, **rq):
        add(f'corsall {req_fields(method, headers, **rq)}', 'allow_all', want_allow_all(method, headers), cls)

    # 0. regression: the F15 witnesses (pinned tree: all granted)
    f15 = [(V['ALLOW_ALL'], 'false'), (V['ALLOW_ORIGINS'], 'https://foo.example,https://bar.example'), (V['ALLOW_CREDENTIALS'], 'true')]
    for o in ['foo', '', 'example,https', 'https://foo.example,https://bar.example', 'e']:
        get(f15, 'GET', [('Origin', o)], 'regression F15')
    get([(V['ALLOW_ALL'], 'false'), (V['ALLOW_ORIGINS'], '')], 'GET', [('Origin', '')], 'regression F15')
    get([(V['ALLOW_ALL'], 'false')], 'OPTIONS', [('Origin', '')], 'regression F15')
    n_reg = len(lines)

    # 1. the exhaustive finite product (get_headers)
    n0 = len(lines)
    for (sk, sv), k, (ck, cv), method, pre, li, (ok_, ov) in itertools.product(
            SWITCH, range(5), CRED, METHODS, (False, True), range(len(LISTS)), ORIGIN_KINDS):
        pairs = []
        if sv is not None: pairs.append((V['ALLOW_ALL'], sv))
        pairs.append((V['ALLOW_ORIGINS'], ','.join(CONF[:k])))
        if cv is not None: pairs.append((V['ALLOW_CREDENTIALS'], cv))
        for key, val in LISTS[li].items():
            if val is not None: pairs.append((V[key], val))
        headers = [('Host', 'localhost')]
        if ov is not None: headers.append(('Origin', ov))
        if pre: headers += PREFLIGHT
        get(pairs, method, headers, f'product switch={sk} origin={ok_}')
    n_product = len(lines) - n0

    # 2. _process: origin kinds x 0..4 entries x credentials x method, entries holding commas / empty entries
    for k, cred, method, (ok_, ov) in itertools.product(range(5), (False, True), METHODS, ORIGIN_KINDS):
        c = dict(all=False, origins=CONF[:k], methods=['GET', 'PUT'], headers=['X-A', 'Content-Type'], cred=cred, expose=['X-B'], maxage='5')
        proc(c, method, [('origin', ov)] if ov is not None else [], f'_process origin={ok_}')
    for origins in [['a,b'], ['a', 'b'], [''], ['', 'a'], ['a,', 'b'], ['a', 'a']]:
        for ov in ['a', 'b', 'a,b', '', 'a,', ',b', ',']:
            c = dict(all=rng.chance(1, 2), origins=origins, methods=[], headers=[], cred=False, expose=[], maxage='')
            proc(c, 'OPTIONS', [('Origin', ov)], '_process comma/empty entries')

    # 3. shapes of the configured list and of the Origin lookup
    for setting in ['a,b', 'a, b', ' a,b ', 'a,,b', ',a', 'a,', ',', '', 'a;b', 'A,b', 'a\tb', 'a,b,a']:
        for ov in ['a', 'b', ' b', 'a ', '', ',', 'a,b', 'a,,b', 'A', 'a;b', ' a', 'a\tb', None]:
            for op in ('corsget', 'corsdef'):
                get([(V['ALLOW_ALL'], 'false'), (V['ALLOW_ORIGINS'], setting), (V['ALLOW_CREDENTIALS'], 'true')],
                    'OPTIONS', [('Origin', ov)] if ov is not None else [], f'list shape', op)
    base = [(V['ALLOW_ALL'], 'false'), (V['ALLOW_ORIGINS'], 'https://foo.example'), (V['ALLOW_HEADERS'], 'X-A')]
    for hn in ['Origin', 'ORIGIN', 'origin', 'oRiGiN', 'Or\u0130gin', 'Or\u0131gin', 'Origin ', ' Origin', 'Origi', 'Originn', '\u212aOrigin', '\u039frigin', 'Access-Control-Allow-Origin']:
        for sw in ('false', 'true'):
            get([(V['ALLOW_ALL'], sw)] + base[1:], 'OPTIONS', [('Host', 'h'), (hn, 'https://foo.example')], 'origin header name variant')
    for hs in [[('origin', 'x'), ('Origin', 'https://foo.example')], [('Origin', 'https://foo.example'), ('origin', 'x')],
               [('Origin', 'https://foo.example'), ('Origin', 'https://foo.example')], [('Or\u0130gin', 'x'), ('ORIGIN', 'https://foo.example')]]:
        for sw in ('false', 'true'):
            get([(V['ALLOW_ALL'], sw)] + base[1:], 'GET', hs, 'repeated origin header')
    for m in ['options', 'Options', 'OPTIONS ', 'OPTION', '', '\u039fPTIONS', 'PATCH', 'DELETE', 'TRACE', 'CONNECT', 'PUT']:
        for sw in ('false', 'true'):
            get([(V['ALLOW_ALL'], sw)] + base[1:] + [(V['MAX_AGE'], '1')], m, [('Origin', 'https://foo.example')] + PREFLIGHT, 'method variant')
    # the switch and credentials values; non-Unicode values read as unset; first binding wins
    for sv in ['false', 'true', 'False', 'FALSE', ' false', 'false ', 'false\n', '0', 'no', 'f', 'fals', 'falsee', b'\xff', b'false\xff', '\uff46alse']:
        for cv in ['true', 'True', 'true ', b'\xfftrue', 't', '1']:
            get([(V['ALLOW_ALL'], sv), (V['ALLOW_ORIGINS'], 'o1,o2'), (V['ALLOW_CREDENTIALS'], cv), (V['ALLOW_METHODS'], b'GET\xfe'),
                 (V['MAX_AGE'], b'\xc3\xa9')], 'OPTIONS', [('Origin', 'o2')], 'switch/credentials spelling')
    get([(V['ALLOW_ALL'], 'false'), (V['ALLOW_ALL'], 'true'), (V['ALLOW_ORIGINS'], 'o1')], 'GET', [('Origin', 'o1')], 'first binding wins')
    get([(V['ALLOW_ALL'], 'false'), (V['ALLOW_ORIGINS'], b'o1,\xff')], 'GET', [('Origin', 'o1')], 'non-unicode origins setting')
    get([('RWS_CONFIG_CORS_ALLOW_AL', 'false'), ('rws_config_cors_allow_all', 'false'), (V['ALLOW_ORIGINS'], 'o1')], 'GET', [('Origin', 'zz')], 'near-miss variable name')

    # 3b. an Origin that is NOT configured but is related to the request's OWN headers (the authority of its Host, its Referer, a
    #     forwarded host): with the switch off nothing about the request itself may earn it a grant
    for host in ['localhost', 'localhost:7777', 'attacker.example', 'a.example:8443', 'LOCALHOST:7777', '127.0.0.1:7878', '[::1]:7878']:
        for ov in [f'http://{host}', f'https://{host}', host, f'//{host}', f'http://{host.lower()}', f'HTTP://{host.upper()}', f'http://{host}/', f'null://{host}']:
            for method in ('GET', 'OPTIONS', 'POST'):
                for hs in ([('Host', host), ('Origin', ov)], [('Origin', ov), ('Host', host)], [('host', host), ('origin', ov)],
                           [('Host', 'other.example'), ('Referer', ov + '/page'), ('Origin', ov)], [('X-Forwarded-Host', host), ('Origin', ov)]):
                    for conf in ('https://foo.example', '', 'https://foo.example,https://bar.example'):
                        get([(V['ALLOW_ALL'], 'false'), (V['ALLOW_ORIGINS'], conf), (V['ALLOW_CREDENTIALS'], 'true')], method,
                            hs + (PREFLIGHT if method == 'OPTIONS' else []), 'origin related to the request own headers', 'corsget' if method != 'POST' else 'corsdef')
    # 4. Unicode lower-casing of configured / requested header lists (differential must agree; the
    #    oracle checks the value too: all characters are in the trusted pool)
    A, S = '\u0391', '\u03a3'     # GREEK CAPITAL ALPHA / SIGMA
    uni = ['X-\u0130', '\u0130', S, A + S, A + S + ' ' + A + S, S + A, A + S + A, A + '\u2019' + S, A + S + '\u2019' + A,
           A + S + '\u0301', A + S + '\u0301' + A, A + '\u00ad' + S, S + S, A + S + S, 'a' + S, '1' + S, A + S + '1',
           'Stra\u00dfe', '\u01c5', '\u01c4', '\u212a', '\u212b', '\u00c9COLE', '\u1ffc', '\u2126',
           'X-Custom,\u0130' + S + ',' + A + S, 'A' + S + '.A', 'A' + S + ':', 'A.' + S, '\u0390', A + S + ',' + A + S]
    for u in uni:
        get([(V['ALLOW_ALL'], 'false'), (V['ALLOW_ORIGINS'], 'o'), (V['ALLOW_HEADERS'], u), (V['EXPOSE_HEADERS'], u + ',' + u), (V['ALLOW_METHODS'], u)],
            'OPTIONS', [('Origin', 'o')], 'unicode configured header names')
        allow_all('OPTIONS', [('Origin', u), ('Access-Control-Request-Headers', u), ('Access-Control-Request-Method', u)], 'unicode requested header names')
        get([], 'OPTIONS', [('ORIGIN', 'o'), ('ACCESS-CONTROL-REQUEST-HEADERS', u)], 'unicode requested header names')
        proc(dict(all=False, origins=[u], methods=[u], headers=[u, u], cred=True, expose=[u, 'x'], maxage=u), 'OPTIONS', [('Origin', u)], 'unicode _process')
        proc(dict(all=False, origins=[u], methods=[], headers=[], cred=True, expose=[], maxage=''), 'GET', [('Origin', u.lower())], 'unicode _process')
    # every scalar value through `_process` (differential only: the oracle does not judge the value):
    # plain, and in the three Final_Sigma contexts that classify it
    def sweep(block):
        cs = [chr(c) for c in range(block * 128, block * 128 + 128) if not (0xD800 <= c <= 0xDFFF)]
        if not cs: return
        plain = ''.join(cs)
        ctx = ','.join(f'a\u03a3{ch}a;a\u03a3{ch};{ch}\u03a3' for ch in cs)
        proc(dict(all=False, origins=['o'], methods=[], headers=[plain], cred=False, expose=[ctx], maxage=''), 'OPTIONS', [('Origin', 'o')], 'unicode sweep')
    blocks = list(range(0x110000 // 128))
    if tier == 'quick':
        head = [bk for bk in blocks if bk * 128 < 0x20000]
        rest = [bk for bk in blocks if bk * 128 >= 0x20000]
        rng.shuffle(rest)
        blocks = head + rest[:150] + [0xE0000 // 128, 0x10FF80 // 128]
    for bk in blocks: sweep(bk)

    # 5. random configurations and near-miss origins
    alpha = 'abAB.:/,-_ '
    def rstr(lo, hi, al=alpha): return ''.join(rng.choice(al) for _ in range(rng.range(lo, hi)))
    nrand = 2500 if tier == 'quick' else 40000
    for i in range(nrand):
        entries = [rstr(0, 6, 'abAB.:/-_ ') for _ in range(rng.range(0, 4))]
        setting = ','.join(entries)
        r = rng.below(10)
        if r == 0 or not setting: ov = rstr(0, 5)
        elif r == 1: ov = rng.choice(entries)
        elif r == 2:
            a = rng.below(len(setting)); ov = setting[a:a + rng.range(0, 6)]          # substring of the joined list
        elif r == 3: ov = rng.choice(entries)[:-1]
        elif r == 4: ov = rng.choice(entries) + rng.choice(alpha)
        elif r == 5: ov = rng.choice(entries).swapcase()
        elif r == 6: ov = ','.join(entries[:2])
        elif r == 7: ov = None
        elif r == 8: ov = rng.choice(entries).strip()
        else: ov = rng.choice(entries)
        method = rng.choice(METHODS + ['OPTIONS', 'OPTIONS'])
        headers = ([(rng.choice(['Origin', 'origin', 'ORIGIN']), ov)] if ov is not None else []) + (PREFLIGHT if rng.chance(1, 2) else [])
        which = rng.below(4)
        if which == 0:
            proc(dict(all=rng.chance(1, 2), origins=entries, methods=[rstr(0, 4) for _ in range(rng.below(3))],
                      headers=[rstr(0, 4) for _ in range(rng.below(3))], cred=rng.chance(1, 2),
                      expose=[rstr(0, 4) for _ in range(rng.below(3))], maxage=rstr(0, 3)), method, headers, 'random _process')
        else:
            pairs = []
            sw = rng.choice(['false', 'false', 'false', 'true', None, 'x'])
            if sw is not None: pairs.append((V['ALLOW_ALL'], sw))
            if rng.chance(9, 10): pairs.append((V['ALLOW_ORIGINS'], setting))
            for key in ['ALLOW_CREDENTIALS', 'ALLOW_METHODS', 'ALLOW_HEADERS', 'EXPOSE_HEADERS', 'MAX_AGE']:
                if rng.chance(2, 3):
                    pairs.append((V[key], rng.choice(['true', 'false', rstr(0, 6), 'X-A,Y-B'])))
            rng.shuffle(pairs)
            get(pairs, method, headers, 'random get_headers', 'corsget' if which < 3 else 'corsdef')

    # 5b. the classes added by the generator audit (audit/C11/AUDIT.md): near misses derived from every configured entry (ports,
    #     schemes, letter case by component, wildcards, userinfo, homoglyphs ...), Origin headers holding a list, long lists, sizes,
    #     the rest of the request (target, version, body, other headers), the preflight request against the configuration, list /
    #     max-age / boolean spellings, method spellings on every entry point, every variable unreadable / misnamed / blank
    class E: pass
    E.get, E.proc, E.allow_all = staticmethod(get), staticmethod(proc), staticmethod(allow_all)
    n_audit0 = len(lines)
    X.codec_cases(rng.fork('audit'), tier, E)
    if second: X.codec_cases2(rng.fork('audit2'), tier, E)
    n_audit = len(lines) - n_audit0
    # 5c. the observation point the property names first: the Access-Control-* headers of whole responses of the server entry points
    #     (Server::process, Server::process_request, App::execute, App::handle_request) under a configuration: started at the top of `run`

    # 6. malformed protocol input: both sides must refuse identically
    bad1, bad2, bad3, bad4, bad5 = C.hx(b'G\xff'), C.hx(b'a\xc0\x80'), C.hx(b'A=B'), C.hx(b'x\x00y'), C.hx(b'\xff')
    raw = [f'corsall {bad1} {hx("/")} {hx("HTTP/1.1")} - -',
           f'corsget _ {hx("GET")} {hx("/")} {hx("HTTP/1.1")} {hx("Origin")}:{bad2} -',
           f'corsget {bad3}={hx("x")} {req_fields("GET", [])}',
           f'corsget {hx("A")}={bad4} {req_fields("GET", [])}',
           f'corsproc 0;{bad5};_;_;0;_;- {req_fields("GET", [("Origin", "a")])}',
           f'corsproc 0;_;_;_;0;_ {req_fields("GET", [("Origin", "a")])}', 'corsvary']
    n_raw0 = len(lines)
    for ln in raw:
        lines.append(ln); meta.append(('protocol', None, 'malformed / misc'))

    impl, model = C.run_both(lines)
    res.rule = ('get_headers: exhaustive product switch{true,false,unset,TRUE,yes,""} x 0..4 configured origins x credentials{true,false,unset,junk} '
                'x method{GET,POST,OPTIONS,HEAD} x preflight headers present/absent x 2 list settings x 13 Origin kinds (configured first/other/last, '
                'prefix, suffix, substring, case variant, "", two joined, spanning two entries, unrelated, superstring, absent); _process: the same Origin kinds x '
                '0..4 entries x credentials x method, entries holding commas / empty entries; list shapes (spaces, empty pieces, trailing comma), '
                'Origin header-name variants (case, U+0130, U+0131, Kelvin sign, padding), method spellings, switch/credential spellings incl. non-Unicode '
                'values; Unicode lower-casing: 31 hand-picked strings (Final_Sigma contexts, multi-scalar images) judged by the oracle + a sweep of '
                + ('every scalar value' if tier == 'thorough' else 'all scalars below U+20000 (every cased script) and 150 sampled 128-blocks above')
                + ' in four contexts (differential only); random configurations with near-miss origins; '
                f'generator audit ({n_audit} cases, vlib/gen_c11.py): about 135 near misses derived from EVERY configured entry of three lists at every list position (cut / doubled / swapped bytes, '
                'text before and after, letter case by component, other / missing scheme, default / other / malformed port, sub- / parent / sibling domain, wildcard, userinfo, trailing dot, '
                'percent-encoding, homoglyphs, normal forms, punycode, loopback aliases), through get_headers, _process, process_using_default_config and in echo mode; an Origin header holding '
                'a list of origins (19 separators); configured lists of 5..257 entries (thorough: 10000) and runs of empty pieces; Origins / entries of 63..8193 bytes (thorough: 1 MiB) equal '
                'but for one byte, long reflected and configured values; multi-byte origins; 22 request targets x 8 versions x 5 bodies; 57 sets of other request headers (credentials, '
                'Sec-Fetch-*, Referer, Host / forwarded host naming a configured origin, CORS response names) before and after the Origin; Origin at every position among 1..257 headers; '
                'the preflight request headers against the configured lists (member / not / case variant / "*" / empty), their presence, order, repetition and near-miss names on all four '
                'entry points; 33 shapes of each list setting, 61 max-age values (0, leading zeros, signs, 7200 / 86400 / 2^31 / 2^32 / 2^63 / 2^64 boundaries, fractions, blanks, other digits), '
                'every subset of the four preflight settings set / empty, 35 boolean spellings for the switch and the credentials; 30 method spellings on every entry point; every variable '
                'non-Unicode, misnamed (12 near-miss names, also next to the right name) or blank; the shipped configuration values; '
                f'whole responses of Server::process / process_request / App::execute / handle_request under {len(plan)} configurations (implementation only, same oracle): exactly the expected '
                'Access-Control-* headers on every status path (200, 204, 206, multipart, 400, 404, 416), none on answers built without the request unless the request earns them; '
                + (f'second generator audit (audit/C11/AUDIT2.md; vlib/gen_c11.py codec_cases2 / feature_plan, props/c11_features.py): configured entries written in a pattern language '
                   '(suffix, glob, regular expression, port / scheme wildcard, bare host, CIDR, keywords) x Origins that match under it; multi-byte characters straddling every byte offset '
                   'of the Origin, the requested method / headers, the settings, the target; an unconfigured Origin named by 24 proxy-header families, by the server\'s own address or by the '
                   'peer\'s; no Origin header while another header names a configured origin; 103 request headers the server ignores today (conditional, range, encodings, Expect, connection '
                   f'management, proxies, fetch metadata, method override, private network); whole responses under {len(plan2)} more processes, the RECEIVED bytes read as a stream of answers, '
                   'each judged against the request it answers: those headers x file / sidecar / directory / missing target x Origin kind through all four entry points, file types and '
                   'directories that "need" a blanket grant, characters at the edges of the Origin value (optional white space: at most what the stripped value earns), "Origin:" text in '
                   'the body / a trailer / another header, histories (the same target / Origin / method / cookie with other grants before, a refused request after a granted one and the '
                   'reverse, 100 distinct origins then the first again), two requests in one read with different Origins, Expect: 100-continue with the body sent or held back, answers '
                   'larger than 64 KiB, write scripts that take the answer in pieces or fail, application errors; ' if second else '')
                + 'a case is non-trivial when the request has an Origin header; distinct = distinct protocol lines')
    res.exhaustive = (f'get_headers over the finite product of switch x 0..4 origins x credentials x method x preflight x list settings x 13 Origin kinds ({n_product} cases)'
                      + ('; to_lowercase over every Unicode scalar value in four contexts' if tier == 'thorough' else ''))
    origin_hex = ':'  # a request with at least one header
    th.join()
    judge_server(res, server_out.get('r'))
    th2.join()
    class N: pass
    N.want_get, N.env_field, N.GRANT_NAMES, N.b = staticmethod(want_get), staticmethod(env_field), GRANT_NAMES, staticmethod(b)
    F2.judge(res, stream_out.get('r'), N)
    C.compare(res, lines, impl, model, 'Cors', nontrivial=lambda ln, a: '4f726967696e' in ln.lower() or '6f726967696e' in ln.lower())
    for ln, (entry, want, cls), a in zip(lines, meta, impl):
        if cls.startswith('product'):
            res.count(cls.split(' origin=')[0]); res.count('product origin=' + cls.split(' origin=')[1])
        else: res.count(cls)
        if entry == 'protocol':
            continue
        judge(res, entry, ln, a, want)
        if want: res.count('expected: grants')
        else: res.count('expected: no grants')
    # the malformed lines must be refused (or answered) identically — already diffed; sanity of the refusals:
    for ln, a in zip(lines[n_raw0:], impl[n_raw0:]):
        if ln == 'corsvary':
            if a != 'ok ' + hx('Origin'): res.fail('vary-value', ln, a, None, 'Vary value for CORS must be Origin')
        elif a not in ('badutf8', 'bad-op'):
            res.fail('protocol:accepted-malformed', ln, a, None, 'malformed protocol line was not refused')
    res.sample({'op': lines[0], 'what': 'F15 regression: Origin "foo" against "https://foo.example,https://bar.example", switch off', 'implementation': impl[0], 'model': model[0]})
    k = next(i for i, m in enumerate(meta) if m[2].startswith('product switch=false origin=configured-other') and m[1] and len(m[1]) > 4)
    res.sample({'op': lines[k], 'implementation': impl[k], 'model': model[k], 'expected': meta[k][1]})
    k = next(i for i, m in enumerate(meta) if m[2] == 'unicode configured header names')
    res.sample({'op': lines[k], 'implementation': impl[k], 'model': model[k], 'expected': meta[k][1]})
    k = next(i for i, m in enumerate(meta) if m[2] == 'unicode sweep')
    res.sample({'op': lines[k][:60] + '…', 'implementation': impl[k][:80] + '…', 'model': model[k][:80] + '…'})
