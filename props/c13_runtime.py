"""C13 runtime tie — the server never modifies the files it serves.  Functions for props/c13.py:

    effect_inventory()                      -> dict(items=[…], unexpected=[…], files=n, functions=n)   (a) regenerated on every call
    report_inventory(res)                   -> same, and res.disagree(component='effect-inventory') per unexpected item
    make_arena(base, rng, n_files=40)       -> Arena(base, docroot, tmpdir, files)   docroot + sentinel directories around it
    manifest(root)                          -> {relpath: dict(type,size,sha256,target,mode,uid,gid,nlink,mtime_ns,ctime_ns)}   (b)
    diff_manifest(before, after)            -> [str]
    run_campaign(server, rng, tier, files=None) -> [(request bytes, response bytes | Exception)]
    upload_requests(rng, paths)             -> [bytes]      PUT/DELETE/PATCH/POST shaped like uploads
    manifest_check(res, tier, seed)         -> runs (b) around a campaign on the real binary (both tiers)
    strace_check(tier, seed)                -> dict(violations=[…], syscalls=n, opens=n, log=path)     (c) thorough tier
    parse_strace(log_text, allowed_write_paths, cwd) -> (violations, stats)

The server is started with cwd = docroot and TMPDIR = a sentinel directory inside the arena, so a
temporary file would also land inside the manifest.
"""
import os, re, sys, stat, hashlib, shutil, tempfile, time
from vlib import common as C
from vlib import realbin as R

# loaded by path: putting translator/gens on sys.path would shadow the standard modules `base64` and `http` with the translators of the same name
import importlib.util as _ilu
_spec = _ilu.spec_from_file_location('rws_translator_inventory', os.path.join(C.VERIF, 'translator', 'gens', 'inventory.py'))
INV = _ilu.module_from_spec(_spec); _spec.loader.exec_module(INV)

# ----------------------------------------------------------------------------- (a) effect inventory
def effect_inventory():
    inv = INV.scan(C.RWS_SRC)
    items = [f"{it['file']}:{it['line']} [{it['function']}] {it['kind']}  `{it['text']}`" for it in inv['effects']]
    bad = [it for it in inv['effects'] if not it['expected']]
    return dict(items=items, raw=inv['effects'], unexpected_raw=bad, files=inv['files'], functions=inv['functions'],
                unexpected=[f"{it['file']}:{it['line']} [{it['function']}] {it['kind']}  `{it['text']}`" for it in bad])

def report_inventory(res):
    try:
        e = effect_inventory()
    except Exception as ex:     # ExtractError: the tie cannot be established
        res.disagree('effect inventory scan', repr(ex), 'scan succeeds', 'effect-inventory')
        return None
    for it in e['unexpected_raw']:
        res.disagree(f"{it['file']}:{it['line']} in fn {it['function']}: {it['kind']}  `{it['text']}`",
                     it['kind'] + ' — ' + it['why'] + (' (function reachable from Server::process / run)' if it['on_request_path'] else ''),
                     'expected effect inventory: none outside tests (except the start-up banner asking `whoami`)', 'effect-inventory')
    res.evaluations += e['functions']
    res.extra['effect_inventory'] = dict(files_scanned=e['files'], functions=e['functions'], items=e['items'], unexpected=e['unexpected'])
    return e

# ----------------------------------------------------------------------------- (b) manifest
def _sha(p):
    h = hashlib.sha256()
    with open(p, 'rb') as fh:
        for chunk in iter(lambda: fh.read(1 << 20), b''): h.update(chunk)
    return h.hexdigest()

def manifest(root):
    """every path under `root` (and `root` itself as '.'), never following symlinks"""
    root = os.fspath(root)
    out = {}
    def entry(p, rel):
        st = os.lstat(p)
        kind = ('file' if stat.S_ISREG(st.st_mode) else 'dir' if stat.S_ISDIR(st.st_mode) else
                'symlink' if stat.S_ISLNK(st.st_mode) else 'other')
        e = dict(type=kind, size=st.st_size, mode=stat.S_IMODE(st.st_mode), uid=st.st_uid, gid=st.st_gid, nlink=st.st_nlink,
                 mtime_ns=st.st_mtime_ns, ctime_ns=st.st_ctime_ns, sha256=None, target=None)
        if kind == 'file':
            try: e['sha256'] = _sha(p)
            except OSError as ex: e['sha256'] = 'unreadable:' + type(ex).__name__
        elif kind == 'symlink':
            e['target'] = os.readlink(p)
        out[rel] = e
    entry(root, '.')
    for d, dirs, files in os.walk(root, followlinks=False):
        for n in sorted(dirs) + sorted(files):
            p = os.path.join(d, n)
            entry(p, os.path.relpath(p, root))
    return out

def diff_manifest(before, after):
    out = []
    for k in sorted(set(before) | set(after)):
        a, b = before.get(k), after.get(k)
        if a is None: out.append(f'CREATED {k} ({b["type"]}, {b["size"]} bytes)')
        elif b is None: out.append(f'DELETED {k} ({a["type"]}, {a["size"]} bytes)')
        elif a != b:
            ch = [f'{f}: {a[f]} -> {b[f]}' for f in a if a[f] != b[f]]
            out.append(f'CHANGED {k}: ' + ', '.join(ch))
    return out

class Arena:
    def __init__(self, base, docroot, tmpdir, files):
        self.base, self.docroot, self.tmpdir, self.files = base, docroot, tmpdir, files
    def remove(self):
        shutil.rmtree(self.base, ignore_errors=True)

def make_arena(base, rng, n_files=40):
    """base/above.txt, base/sibling/…, base/tmpdir/ (TMPDIR of the server), base/lvl/root = docroot with
    generated files plus tempting targets: uploads/, tmp/, a writable log file, a config file"""
    os.makedirs(base, exist_ok=True)
    docroot = os.path.join(base, 'lvl', 'root')
    files = R.write_docroot(docroot, rng, n_files=n_files)
    for rel, content in [('above.txt', b'sentinel above\n'), ('lvl/parent.txt', b'sentinel parent\n'),
                         ('sibling/secret.txt', b'sentinel sibling\n'), ('sibling/sub/deep.bin', bytes(range(256))),
                         ('lvl/root/uploads/.keep', b''), ('lvl/root/tmp/.keep', b''), ('lvl/root/access.log', b'existing log line\n'),
                         ('lvl/root/file-upload/initiate', b'a FILE at the upload endpoint path\n'), ('lvl/root/upload.txt', b'to be overwritten?\n')]:
        p = os.path.join(base, rel)
        os.makedirs(os.path.dirname(p), exist_ok=True)
        with open(p, 'wb') as fh: fh.write(content)
    tmpdir = os.path.join(base, 'tmpdir'); os.makedirs(tmpdir, exist_ok=True)
    for extra in ['/uploads/.keep', '/tmp/.keep', '/access.log', '/upload.txt']:
        files[extra] = open(docroot + extra, 'rb').read()
    return Arena(base, docroot, tmpdir, files)

# ----------------------------------------------------------------------------- the request campaign
def _req(method, target, headers=(), body=b''):
    out = f'{method} {target} HTTP/1.1\r\n'.encode('utf-8', 'surrogateescape')
    for n, v in headers:
        out += n.encode() + b': ' + (v if isinstance(v, bytes) else v.encode()) + b'\r\n'
    return out + b'\r\n' + body

def multipart(rng, boundary, fields):
    b = b''
    for name, filename, ctype, value in fields:
        b += f'--{boundary}\r\nContent-Disposition: form-data; name="{name}"'.encode()
        if filename is not None: b += f'; filename="{filename}"'.encode()
        b += b'\r\n'
        if ctype: b += f'Content-Type: {ctype}\r\n'.encode()
        b += b'\r\n' + value + b'\r\n'
    return b + f'--{boundary}--\r\n'.encode()

UPLOAD_METHODS = ['PUT', 'DELETE', 'PATCH', 'POST']
ENDPOINTS = ['/form-get-method', '/form-url-encoded-enctype-post-method', '/form-multipart-enctype-post-method', '/file-upload/initiate']

def upload_requests(rng, paths, n=120):
    """PUT/DELETE/PATCH/POST (and GET) whose shape invites a write: multipart with file parts whose filename
    names an existing file / a traversal / a new file, urlencoded bodies with path-like fields, raw bodies
    PUT on existing and new paths, DELETE of files and directories, the upload-initiate endpoint"""
    out = []
    names = ['upload.txt', 'uploads/new.bin', '../above.txt', '../../sibling/secret.txt', '/etc/passwd-like', 'a/data.txt',
             'access.log', 'tmp/x', '.hidden', 'new-%d.txt' % rng.below(10 ** 6), 'uploads/', '', '..', 'a\\b.txt', 'x' * 200]
    for _ in range(n):
        m = rng.choice(UPLOAD_METHODS)
        k = rng.below(8)
        p = rng.choice(paths)
        if k == 0:
            bd = 'XB%d' % rng.below(10 ** 6)
            fields = [('file', rng.choice(names), rng.choice(['text/plain', 'application/octet-stream', None]), R.file_content(rng.below(999), rng.range(0, 1500), rng.chance(1, 3))),
                      ('path', None, None, rng.choice(names).encode()), ('overwrite', None, None, b'true')]
            rng.shuffle(fields)
            body = multipart(rng, bd, fields[:rng.range(1, 3)])
            t = rng.choice(['/form-multipart-enctype-post-method', '/file-upload/initiate?name=%s&lastModified=1&size=%d' % (rng.choice(names[:6]).replace('/', '%2F'), len(body)), p, '/uploads/', '/upload.txt'])
            out.append(_req(m, t, [('Host', 'localhost'), ('Content-Type', f'multipart/form-data; boundary={bd}'), ('Content-Length', str(len(body)))], body))
        elif k == 1:
            body = ('name=%s&lastModified=%d&size=%d&path=%s&content=%s' % (rng.choice(names[:8]).replace('/', '%2F'), rng.below(10 ** 9), rng.below(10 ** 5),
                                                                              rng.choice(names[:8]).replace('/', '%2F'), 'A' * rng.range(0, 300))).encode()
            t = rng.choice(['/form-url-encoded-enctype-post-method', '/file-upload/initiate', p, '/upload.txt'])
            out.append(_req(m, t, [('Host', 'localhost'), ('Content-Type', 'application/x-www-form-urlencoded'), ('Content-Length', str(len(body)))], body))
        elif k == 2:
            out.append(_req(m, '/file-upload/initiate?name=%s&lastModified=%d&size=%d' % (rng.choice(names[:8]).replace('/', '%2F'), rng.below(10 ** 9), rng.below(10 ** 7)),
                            [('Host', 'localhost')], rng.choice([b'', b'chunk-of-file-data' * rng.range(1, 50)])))
        elif k == 3:     # raw body on an existing path: "replace this file"
            body = R.file_content(rng.below(999), rng.range(0, 3000))
            out.append(_req(m, p, [('Host', 'localhost'), ('Content-Type', 'application/octet-stream'), ('Content-Length', str(len(body))),
                                   ('Content-Range', 'bytes 0-%d/%d' % (max(0, len(body) - 1), len(body)))], body))
        elif k == 4:     # a new path, a directory, a traversal
            t = rng.choice(['/uploads/new-%d.txt' % rng.below(10 ** 6), '/uploads/', '/tmp/', '/emptydir', '/../above.txt', '/../../sibling/secret.txt',
                            '/a/', '/newdir-%d/' % rng.below(1000), '/access.log', '/file-upload/initiate/x'])
            out.append(_req(m, t, [('Host', 'localhost'), ('Content-Length', '5')], b'hello'))
        elif k == 5:     # WebDAV-ish and override headers
            out.append(_req(rng.choice(['POST', 'PUT', 'MKCOL', 'MOVE', 'COPY', 'DELETE']), p,
                            [('Host', 'localhost'), ('X-HTTP-Method-Override', rng.choice(['DELETE', 'PUT'])), ('Destination', '/uploads/moved.txt'),
                             ('Overwrite', 'T'), ('If-Match', '*')], b'x'))
        elif k == 6:
            q = 'name=%s&lastModified=1&size=3&file=%s' % (rng.choice(names[:8]).replace('/', '%2F'), rng.choice(names[:8]).replace('/', '%2F'))
            out.append(_req(rng.choice(['GET', 'POST']), rng.choice(['/form-get-method?', '/file-upload/initiate?']) + q, [('Host', 'localhost')]))
        else:
            bd = 'B'
            body = multipart(rng, bd, [('f%d' % j, 'up%d.bin' % j, 'application/octet-stream', rng.bytes(rng.range(0, 400))) for j in range(rng.range(1, 6))])
            out.append(_req('POST', '/form-multipart-enctype-post-method', [('Host', 'localhost'), ('Content-Type', f'multipart/form-data; boundary={bd}'), ('Content-Length', str(len(body)))], body))
    return [r for r in out if len(r) <= 9500]

def run_campaign(server, rng, tier, files=None):
    """valid requests of every method, upload-shaped bodies to the form and file endpoints, malformed
    requests — one connection each, mostly serial with one concurrent burst.  Returns [(request, response)]."""
    from props import c08
    paths = sorted(files) if files else ['/index.html', '/a/data.txt', '/upload.txt']
    fs = files or {p: b'' for p in paths}
    n = 150 if tier == 'quick' else 1200
    reqs = [r['raw'] for r in c08.gen_requests(rng.fork('valid'), fs, n)]
    reqs += upload_requests(rng.fork('upload'), paths, n)
    for m in ['GET', 'HEAD', 'POST', 'PUT', 'DELETE', 'CONNECT', 'OPTIONS', 'TRACE', 'PATCH']:
        for t in ENDPOINTS + [paths[0], '/', '/uploads/', '/nonexistent']:
            reqs.append(_req(m, t, [('Host', 'localhost')], b'' if m in ('GET', 'HEAD') else b'a=1'))
    rng.shuffle(reqs)
    out = []
    burst = len(reqs) // 3
    for r in reqs[burst:]:
        if not server.alive(): break
        try: out.append((r, server.request(r, timeout=10)))
        except Exception as e: out.append((r, e))       # noqa
    if server.alive():
        got = R.run_concurrent(server, reqs[:burst], conns=8, timeout=15)
        out.extend(zip(reqs[:burst], got))
    return out

def manifest_check(res, tier, seed, threads=4):
    """(b) in both tiers: manifest of the arena (docroot + sentinels + TMPDIR) before/after a campaign"""
    rng = C.Rng(seed).fork('c13-manifest')
    ok, out = R.build()
    if not ok:
        res.disagree('cargo build --release of the real binary', out[-600:], 'builds', 'real-binary-build'); return None
    base = tempfile.mkdtemp(prefix='rws-c13-')
    try:
        ar = make_arena(base, rng.fork('arena'), n_files=30 if tier == 'quick' else 80)
        # special files among the served ones: a named pipe, a unix socket (bound, nobody listening), links to both - a server that
        # "tidies up" a stale endpoint it was asked for changes the tree
        import socket as _so
        sp = os.path.join(ar.docroot, 'special'); os.makedirs(sp, exist_ok=True)
        os.mkfifo(os.path.join(sp, 'pipe.fifo')); os.mkfifo(os.path.join(sp, 'page.html'))
        _u = _so.socket(_so.AF_UNIX); _u.bind(os.path.join(sp, 'endpoint.sock')); _u.close()
        os.symlink('pipe.fifo', os.path.join(sp, 'to-pipe.lnk')); os.symlink('endpoint.sock', os.path.join(sp, 'to-sock.lnk'))
        before = manifest(ar.base)
        with R.Server(ar.docroot, threads=threads, env={'TMPDIR': ar.tmpdir}, capture_stdout=False) as srv:
            pairs = run_campaign(srv, rng.fork('campaign'), tier, ar.files)
            for t in ('/special/pipe.fifo', '/special/endpoint.sock', '/special/to-pipe.lnk', '/special/to-sock.lnk', '/special/page', '/special/page.html', '/special/', '/special'):
                for m in ('GET', 'HEAD', 'OPTIONS', 'POST', 'DELETE'):
                    raw = f'{m} {t} HTTP/1.1\r\nHost: localhost\r\n\r\n'.encode()
                    try: a = srv.request(raw, timeout=5)
                    except Exception as e: a = e      # noqa: answered or not is C04/C06's; the tree is what is judged here
                    pairs.append((raw, a))
            alive = srv.alive()
        after = manifest(ar.base)
        d = diff_manifest(before, after)
        res.evaluations += len(pairs); res.programs += len(pairs)
        answered = sum(1 for _, a in pairs if not isinstance(a, Exception) and a)
        res.count('campaign requests', len(pairs)); res.count('campaign requests answered', answered)
        res.extra['manifest'] = dict(entries=len(before), requests=len(pairs), answered=answered, server_alive_at_end=alive, differences=d[:20])
        for line in d[:10]:
            res.fail('tree-modified:' + line.split(' ')[0], dict(difference=line, requests=len(pairs)), line, 'no difference',
                     'the manifest of the served tree / sentinel directories changed during the campaign: ' + line)
        return d
    finally:
        shutil.rmtree(base, ignore_errors=True)

# ----------------------------------------------------------------------------- (c) strace
WRITE_FLAGS = ('O_WRONLY', 'O_RDWR', 'O_CREAT', 'O_TRUNC', 'O_APPEND', 'O_TMPFILE')
MUTATORS = {'unlink', 'unlinkat', 'rename', 'renameat', 'renameat2', 'mkdir', 'mkdirat', 'rmdir', 'link', 'linkat', 'symlink', 'symlinkat',
            'truncate', 'ftruncate', 'chmod', 'fchmod', 'fchmodat', 'fchmodat2', 'chown', 'fchown', 'lchown', 'fchownat', 'utime', 'utimes',
            'utimensat', 'futimesat', 'mknod', 'mknodat', 'setxattr', 'lsetxattr', 'fsetxattr', 'removexattr', 'lremovexattr', 'fremovexattr',
            'chdir', 'fchdir', 'chroot', 'mount', 'umount2', 'fallocate', 'copy_file_range', 'execve', 'execveat'}
FD_WRITERS = {'write', 'pwrite64', 'writev', 'pwritev', 'pwritev2', 'sendfile', 'splice'}
IGNORED_PREFIXES = ('/proc/', '/dev/', '/sys/')
LINE = re.compile(r'^(\d+)\s+(.*)$')
CALL = re.compile(r'^([a-z_0-9]+)\((.*)$', re.S)

def _merge_unfinished(text):
    """join `… <unfinished ...>` with its `<... name resumed> …` per pid"""
    pend, out = {}, []
    for raw in text.split('\n'):
        m = LINE.match(raw)
        if not m: continue
        pid, rest = m.group(1), m.group(2)
        if rest.endswith('<unfinished ...>'):
            pend[pid] = rest[:-len('<unfinished ...>')]; continue
        r = re.match(r'^<\.\.\. (\w+) resumed>(.*)$', rest)
        if r and pid in pend:
            rest = pend.pop(pid) + r.group(2)
        out.append((pid, rest))
    return out

def parse_strace(text, allowed_write_paths=(), cwd='/', skip_until_listen=True):
    """-> (violations [str], stats dict).  Start-up (before the first accept) may exec a child (the banner's
    `whoami`, listed in stats['startup_execs']); nothing else is relaxed there.  Rules: every open*/creat of a path outside /proc /dev /sys is read-only;
    no path-mutating syscall at all (after the exec of the server itself); write-class calls only on
    stdout/stderr (allowed_write_paths), sockets, pipes and /dev/null."""
    viol, stats = [], dict(syscalls=0, opens=0, opens_under_cwd=0, fd_writes=0, mutators=0, startup_execs=[], accepts=0)
    seen_exec = False
    serving = False       # becomes True at the first accept: everything after it is caused by connections
    for pid, rest in _merge_unfinished(text):
        m = CALL.match(rest)
        if not m: continue
        name, args = m.group(1), m.group(2)
        stats['syscalls'] += 1
        if name in ('accept', 'accept4'):
            serving = True; stats['accepts'] += 1; continue
        if name in ('listen', 'bind', 'socket'): continue
        if name in ('execve', 'execveat') and not seen_exec:
            seen_exec = True; continue          # strace starting the server binary
        if name in ('execve', 'execveat') and not serving:
            # start-up only: Server::setup -> Log::info -> FileExt::get_current_user runs `whoami` (PATH search)
            if rest.rstrip().endswith('= 0'):
                pm = re.search(r'"((?:[^"\\]|\\.)*)"', args)
                stats['startup_execs'].append(pm.group(1) if pm else '?')
            continue
        if name in ('open', 'openat', 'openat2', 'creat'):
            stats['opens'] += 1
            pm = re.search(r'"((?:[^"\\]|\\.)*)"', args)
            path = pm.group(1) if pm else '?'
            full = path if path.startswith('/') else os.path.normpath(os.path.join(cwd, path))
            if full.startswith(cwd): stats['opens_under_cwd'] += 1
            flags = args[pm.end():] if pm else args
            bad = [f for f in WRITE_FLAGS if re.search(r'\b' + f + r'\b', flags)] or (['creat'] if name == 'creat' else [])
            if bad and not full.startswith(IGNORED_PREFIXES):
                viol.append(f'open for writing ({"|".join(bad)}): {pid} {rest[:300]}')
        elif name in MUTATORS:
            stats['mutators'] += 1
            viol.append(f'mutating syscall {name}: {pid} {rest[:300]}')
        elif name in FD_WRITERS:
            stats['fd_writes'] += 1
            fm = re.match(r'\s*(\d+)<([^>]*)>', args)
            target = fm.group(2) if fm else '?'
            if not (target.startswith(('socket:', 'pipe:', 'anon_inode:', 'TCP:', 'TCPv6:', 'UNIX', '/dev/null', '/dev/pts/', '/dev/tty')) or target in allowed_write_paths):
                viol.append(f'write to a file descriptor that is not stdout/stderr/socket ({target}): {pid} {rest[:200]}')
    return viol, stats

def strace_check(tier, seed, threads=4, keep_log=False):
    """(c): the real binary under strace -f -y -e trace=%file,%desc while the campaign runs"""
    rng = C.Rng(seed).fork('c13-strace')
    if shutil.which('strace') is None:
        return dict(violations=[], skipped='strace not installed', syscalls=0)
    ok, out = R.build()
    if not ok: return dict(violations=['real binary does not build: ' + out[-300:]], syscalls=0)
    base = tempfile.mkdtemp(prefix='rws-c13s-')
    logdir = tempfile.mkdtemp(prefix='rws-c13s-log-')
    log = os.path.join(logdir, 'strace.log')
    try:
        ar = make_arena(base, rng.fork('arena'), n_files=30)
        before = manifest(ar.base)
        srv = R.Server(ar.docroot, threads=threads, env={'TMPDIR': ar.tmpdir}, logdir=logdir,
                       wrap=['strace', '-f', '-y', '-s', '48', '-e', 'trace=%file,%desc,listen,accept,accept4', '-o', log], start_timeout=30)
        srv.start()
        try:
            pairs = run_campaign(srv, rng.fork('campaign'), 'quick' if tier == 'quick' else 'thorough', ar.files)
            alive = srv.alive()
        finally:
            srv.stop(graceful=True)
        text = open(log, encoding='utf-8', errors='replace').read()
        viol, stats = parse_strace(text, allowed_write_paths={srv.stdout_path, srv.stderr_path}, cwd=ar.docroot)
        d = diff_manifest(before, manifest(ar.base))
        stats.update(requests=len(pairs), answered=sum(1 for _, a in pairs if not isinstance(a, Exception) and a),
                     server_alive_at_end=alive, manifest_differences=d[:10])
        if stats['accepts'] == 0:
            viol.append('strace log shows no accept: the trace did not observe the serving phase (tie not established)')
        if stats['opens_under_cwd'] == 0:
            viol.append('strace log shows no open of any file under the docroot: the trace did not observe the server (tie not established)')
        return dict(violations=viol + ['manifest: ' + x for x in d], log=(log if keep_log else None), **stats)
    finally:
        shutil.rmtree(base, ignore_errors=True)
        if not keep_log: shutil.rmtree(logdir, ignore_errors=True)

if __name__ == '__main__':      # python3 -m props.c13_runtime [quick|thorough]
    tier = sys.argv[1] if len(sys.argv) > 1 else 'quick'
    res = C.Result('C13')
    report_inventory(res); print('effect inventory:', res.extra.get('effect_inventory', {}).get('items'), 'disagreements', len(res.disagreements))
    t0 = time.time(); d = manifest_check(res, tier, 1); print('manifest differences:', d, res.extra.get('manifest'), f'{time.time()-t0:.1f}s')
    t0 = time.time(); s = strace_check(tier, 1); print('strace:', {k: v for k, v in s.items() if k != 'violations'}, f'{time.time()-t0:.1f}s')
    for v in s['violations'][:10]: print('  VIOLATION', v)
