"""C03, second generator audit: probes that need a runner of their own or another observation point than `the first buffer of one answer`.

    split_answers   the bytes a connection RECEIVED, as a stream: the first answer ends after its Content-Length bytes (HEAD / OPTIONS:
                    after its head); what follows, if it is an answer, is the second answer on the connection and belongs to the
                    second request of the read.  This server answers once and closes: today there is nothing after the first answer
    churn           the FILES change between two answers: the served directory is rebuilt in the middle of a harness process (same
                    path: other bytes of the same length, grown, shrunk, emptied, a link, the link re-pointed, a directory with an
                    index page next to the .html page) and the same ranges are asked again through the same entry point; model and
                    real code run the same script
    sparse          files of 2^31, 2^32 and 2^32 + 8 KiB bytes (sparse, made by the check under the temporary directory, reached
                    through links): ranges that straddle 2^31 and 2^32, that end at the last byte, suffix ranges, two ranges more
                    than 2^32 bytes apart in one header.  The model knows files by their content, so these run on the real code
                    alone and are judged by the oracle
"""
import os, re, glob, shutil, tempfile
from vlib import common as C

def _m():
    from props import c03 as M
    return M

# ----------------------------------------------------------------------------- the received bytes as a stream of answers
def split_answers(raw, first_method):
    """-> (first answer, rest): rest is non-empty only when a further answer (`HTTP/1.`) follows the complete first one"""
    i = raw.find(b'\r\n\r\n')
    if i < 0: return raw, b''
    head = raw[:i + 2]
    if first_method in ('HEAD', 'OPTIONS'): end = i + 4
    else:
        m = re.search(rb'(?i)\r\ncontent-length:[ \t]*(\d+)[ \t]*\r\n', head)
        if not m: return raw, b''
        end = i + 4 + int(m.group(1))
    if end < len(raw) and raw[end:end + 7] == b'HTTP/1.': return raw[:end], raw[end:]
    return raw, b''

# ----------------------------------------------------------------------------- files that change between two answers
def churn(res, rng, tier):
    from vlib import serve as S, servecheck as K, gen_c03 as X
    M = _m()
    entries = ['proc', 'aexec'] if tier == 'quick' else ['proc', 'preq', 'aexec', 'aexecl']
    import threading
    out = {}
    def work(entry):
        steps = X.churn_script(rng.fork('churn-' + entry), tier, S, K, entry)
        first = steps[0][1]
        lines = [first.line(), S.env_line(None), 'manifest'] + [s[1].line() if s[0] == 'tree' else s[1].line for s in steps[1:]]
        impl, _ = S.run_stateful([C.HARNESS_BIN, 'serve'], lines)
        mlines = lines[:3] + [ln if s[0] == 'tree' else ln + ' et=' + C.hx(S.err_text(S.parse_result(il))) for s, ln, il in zip(steps[1:], lines[3:], impl[3:])]
        model, _ = S.run_stateful([C.MODEL_BIN], mlines)
        out[entry] = (steps, impl, model)
    ts = [threading.Thread(target=work, args=(e,)) for e in entries]
    for t in ts: t.start()
    for t in ts: t.join()
    for entry in entries:
        steps, impl, model = out[entry]
        if impl[:2] != ['ok', 'ok']:
            res.notes.append('churn: the harness could not build the tree (%r)' % (impl[:2],)); continue
        for s, il, ml in zip(steps[1:], impl[3:], model[3:]):
            if s[0] == 'tree':
                if il != 'ok' or ml != 'ok': res.disagree(s[1].line()[:200], il[:100], ml[:100], 'tree line in the middle of a process')
                continue
            c, meta = s[1], s[2]
            res.evaluations += 1; res.programs += 1
            res.distinct.add(hash(('churn', entry, c.raw, len(meta['data']))))
            ci, cm = S.canon(il), S.canon(ml)
            if cm.startswith('panic unlocated:') and ci.startswith('panic '): ci = cm
            if ci != cm: res.disagree(c.line[:300], ci[:300], cm[:300], 'Range / Response.generate_response on the wire (files changed between two requests)')
            M.judge_case(res, c, S.parse_result(il), meta, K)

# ----------------------------------------------------------------------------- files beyond 2^31 and 2^32 bytes
class Sparse:
    """the content of a file of `size` bytes that is zero except for the windows {offset: bytes}; sliced like bytes (short slices only)"""
    def __init__(self, size, windows):
        self.size, self.windows = size, dict(windows)
    def __len__(self): return self.size
    def __getitem__(self, sl):
        a, b, _ = sl.indices(self.size)
        if b - a > (1 << 20): return TooLong
        out = bytearray(max(0, b - a))
        for off, w in self.windows.items():
            lo, hi = max(a, off), min(b, off + len(w))
            if lo < hi: out[lo - a:hi - a] = w[lo - off:hi - off]
        return bytes(out)
    def __eq__(self, other): return other is self
    def __ne__(self, other): return other is not self
    __hash__ = object.__hash__

class _TooLong:
    def __eq__(self, other): return False
    def __ne__(self, other): return True
    __hash__ = object.__hash__
TooLong = _TooLong()

def _sparse_dir():
    return os.path.join(tempfile.gettempdir(), 'rws_c03_sparse_%d' % os.getpid())

def _cleanup_sparse():
    for d in glob.glob(os.path.join(tempfile.gettempdir(), 'rws_c03_sparse_*')):
        pid = d.rsplit('_', 1)[1]
        if not os.path.exists('/proc/' + pid): shutil.rmtree(d, ignore_errors=True)

def sparse(res, rng, tier):
    from vlib import serve as S, servecheck as K
    M = _m()
    _cleanup_sparse()
    d = _sparse_dir()
    G31, G32 = 1 << 31, 1 << 32
    mark = lambda k, n=96: bytes((i * 7 + k * 53 + 1) % 255 + 1 for i in range(n))        # never zero
    sizes = [('b31.bin', G31), ('b32.bin', G32), ('b32k.bin', G32 + 8192), ('b31p.bin', G31 + 1), ('b40.bin', (1 << 40) + 3)]
    if tier != 'quick': sizes += [('b33.bin', (1 << 33) + 5), ('b31m.bin', G31 - 1), ('b32m.bin', G32 - 1), ('b32p.bin', G32 + 1), ('b43.bin', (1 << 43) + 1)]
    files = {}
    os.makedirs(d, exist_ok=True)
    for k, (name, size) in enumerate(list(sizes)):
        wins = {}
        for j, off in enumerate([0, G31 - 48, G32 - 48, size - 96, (1 << 33) - 48, size // 2]):
            if 0 <= off and off + 96 <= size and all(abs(off - o) >= 96 for o in wins): wins[off] = mark(k * 8 + j)
        try:
            with open(os.path.join(d, name), 'wb') as f:
                f.truncate(size)
                for off, w in wins.items(): f.seek(off); f.write(w)
            files[name] = Sparse(size, wins)
        except OSError as e:
            res.notes.append('sparse: the temporary directory does not take a file of %d bytes (%r): left out' % (size, e))
            sizes.remove((name, size))
            try: os.remove(os.path.join(d, name))
            except OSError: pass
    if not sizes:
        shutil.rmtree(d, ignore_errors=True); return
    try:
        tree = S.Tree(b'lvl0/root'); root = tree.cwd + b'/'
        small = bytes((i * 3 + 1) % 256 for i in range(100)); tree.file(root + b'small.bin', small)
        for name, _ in sizes: tree.link(root + name.encode(), os.path.join(d, name).encode())
        cases, metas = [], []
        def add(name, data, h, method='GET', entry=None):
            cases.append(K.mk(tree, method, '/' + name, [('Range', h)], entry=entry or rng.choice(['proc', 'preq', 'aexec', 'aexecl']), alloc=10000, kind='wire-range'))
            metas.append(dict(data=data, header=h, method=method, level='std', kind='beyond-2^31'))
        add('small.bin', small, 'bytes=3-9')
        for name, size in sizes:
            data = files[name]; L = size
            hs = [f'bytes={L - 1}-', f'bytes={L - 1}-{L - 1}', 'bytes=-1', 'bytes=-96', f'bytes={L - 96}-', f'bytes={L - 50}-{L - 1}', f'bytes=0-0,{L - 1}-{L - 1}', f'bytes={L - 2}-{L - 1},0-1,-1',
                  f'bytes={L}-', f'bytes={L - 1}-{L}', f'bytes={L - 10}-{L + 10}', f'bytes=-{L + 1}' if tier != 'quick' else f'bytes={L + 1}-', 'bytes=0-95', f'bytes={L // 2}-{L // 2 + 9}']
            for edge in (G31, G32, 1 << 33):
                if edge + 48 <= L or edge == L:
                    hs += [f'bytes={edge - 8}-{min(edge + 7, L - 1)}', f'bytes={edge - 1}-{edge - 1}', f'bytes={edge - 48}-{edge - 1}']
                    if edge < L: hs += [f'bytes={edge}-{edge}', f'bytes={edge - 1}-{edge}', f'bytes=0-3,{edge - 2}-{edge + 1},-2', f'bytes={edge + 1}-{edge + 4},1-4', f'bytes=-{L - edge}' if L - edge <= 9000 else f'bytes={edge}-{edge + 40}']
            for h in (hs if tier != 'quick' else [h for h in hs if rng.chance(3, 4)]):
                add(name, data, h, method='HEAD' if rng.chance(1, 12) else 'GET')
        results = K.run_batches([(tree, cases)], with_model=False)
        for (c, r, il, ml), meta in zip(results, metas):
            res.evaluations += 1; res.programs += 1
            res.distinct.add(hash(('sparse', c.entry, c.raw)))
            M.judge_case(res, c, r, meta, K)
    finally:
        shutil.rmtree(d, ignore_errors=True)
