"""Shared by props/c07.py and props/c06.py: running scenarios on the REAL ThreadPool
(`rws_harness pool`), replaying the recorded traces on the Lean model (`pooltrace`), and the
property oracle on the implementation's observations alone."""
import threading, re
from vlib import common as C

BATCH = 80          # scenarios per harness process (pools are never dropped: bounds idle threads)
PARALLEL = 6        # harness processes at a time

def scenario(n, kinds, seed, perturb):
    k = sum(1 for c in kinds if c not in 'wzd')
    return f'{n} tasks={k} kinds={kinds or "-"} seed={seed} perturb={1 if perturb else 0}'

def parse_scenario(line):
    p = line.split()
    kinds = p[2].split('=', 1)[1]
    return int(p[0]), ('' if kinds == '-' else kinds)

def run_pool(lines, parallel=PARALLEL, batch=BATCH):
    """returns one output line per scenario; stops issuing batches once a batch had a timeout
    (the remaining scenarios are answered 'skipped')"""
    chunks = [lines[i:i + batch] for i in range(0, len(lines), batch)]
    res = [None] * len(chunks)
    stop = threading.Event()
    nxt = [0]
    lock = threading.Lock()
    def work():
        while True:
            with lock:
                i = nxt[0]; nxt[0] += 1
            if i >= len(chunks): return
            if stop.is_set():
                res[i] = ['skipped'] * len(chunks[i]); continue
            r = C._run_lines([C.HARNESS_BIN, 'pool'], chunks[i], timeout=900)
            res[i] = r
            if any('status=timeout' in x or x.startswith('abort') for x in r): stop.set()
    ts = [threading.Thread(target=work) for _ in range(min(parallel, len(chunks)))]
    for t in ts: t.start()
    for t in ts: t.join()
    out = []
    for r in res: out.extend(r)
    return out

def fields(out):
    return dict(kv.split('=', 1) for kv in out.split() if '=' in kv)

def expected_model(kinds):
    tasks = [c for c in kinds if c not in 'wz']
    failed = [str(i) for i, c in enumerate(tasks) if c == 'p']
    return f'ok done={len(tasks)} failed={",".join(failed) if failed else "-"}'

def judge(res, pid, lines, impl, component='Pool'):
    """oracle on the implementation alone + trace inclusion in the model.
    Returns the model's answers."""
    mlines, idx = [], []
    for k, (ln, out) in enumerate(zip(lines, impl)):
        if out == 'skipped':
            res.count('skipped after timeouts'); continue
        n, kinds = parse_scenario(ln)
        tasks = [c for c in kinds if c not in 'wz']
        if not out.startswith('N='):
            res.fail('pool-harness:' + out.split()[0], ln, out, None, 'the pool scenario did not produce a result line')
            continue
        f = fields(out)
        counts = [] if f['counts'] == '-' else [int(x) for x in f['counts'].split(',')]
        # --- property oracle (independent of the model) ---
        tr0 = [] if f['trace'] == '-' else f['trace'].split(',')
        if f['status'] != 'ok' and all(c == 1 for c in counts) and sum(1 for e in tr0 if e[0] in 'fc') == len(tasks):
            res.fail('pool-worker-gone', ln, out[:600], None,
                     'every task completed, but within 10 s no worker went back to wait for the next task (workers left their loop)')
        elif f['status'] != 'ok':
            lost = [i for i, c in enumerate(counts) if c == 0]
            sig = 'pool-rendezvous-timeout' if ('b' in tasks and not lost) else 'pool-timeout'
            res.fail(sig, ln, out[:600], None,
                     f'not every task completed within 10 s (never started: {lost[:8]}); '
                     + ('N tasks that rendezvous on a barrier of N did not run simultaneously' if 'b' in tasks else 'a task was lost or a worker is gone'))
        elif any(c != 1 for c in counts):
            bad = [(i, c) for i, c in enumerate(counts) if c != 1][:8]
            res.fail('pool-exactly-once', ln, out[:600], None, f'tasks not executed exactly once: {bad}')
        # trace-level observations, still implementation only: begin/finish per task
        tr = [] if f['trace'] == '-' else f['trace'].split(',')
        begun = [e for e in tr if e.startswith('b')]
        ended = [e for e in tr if e[0] in 'fc']
        if f['status'] == 'ok' and (len(begun) != len(tasks) or len(ended) != len(tasks)):
            res.fail('pool-trace-count', ln, out[:600], None, f'{len(begun)} task starts and {len(ended)} task ends observed for {len(tasks)} tasks')
        mlines.append(f'pooltrace {n} {f["trace"]}'); idx.append(k)
    model = C.run_model(mlines) if mlines else []
    answers = {}
    for k, ml, mo in zip(idx, mlines, model):
        ln, out = lines[k], impl[k]
        n, kinds = parse_scenario(ln)
        res.evaluations += 1; res.programs += 1
        res.distinct.add(hash((ln, out.split(' ms=')[0])))
        want = expected_model(kinds)
        answers[k] = mo
        if mo != want:
            res.disagree(ln, out[:800], f'{mo} (a run of Pool {n} for this script ends with: {want})', component)
    return answers

def replay(pid, rp, times=30):
    case = rp.get('case') or (rp.get('correspondence') or {}).get('case')
    if not case:
        print('replay file names no case (broken obligation only):', rp.get('broken')); return 1
    class R:  # minimal Result
        pass
    res = C.Result(pid)
    lines = [case] * times
    impl = run_pool(lines, parallel=1, batch=times)
    judge(res, pid, lines, impl)
    print('case            :', case)
    print('implementation  :', impl[0][:400])
    print(f'{times} runs: oracle failures {len(res.failures)}, traces not accepted by the model {len(res.disagreements)}')
    for f in res.failures[:2]: print('  failure:', f['sig'], '-', f['why'])
    for d in res.disagreements[:2]: print('  model  :', d['model'])
    return 1 if (res.failures or res.disagreements) else 0
