"""C14 — request parsing accepts exactly well-formed requests and round-trips them.
Correspondence: Request::parse / generate / get_header / parse_method_and_request_uri_and_http_version_string /
parse_http_request_header_string and the std primitives String::from_utf8, str::trim* (real code)
vs Rws.Req / Rws.Utf8 (Lean model).
Oracle on the implementation alone, written from the property statement:
  * accept/reject: an independent Python reading of the request line (strict UTF-8 decode, strip
    of the 25 White_Space scalars, two splits at the first blank, ASCII-case-insensitive
    membership in the 9 methods / 4 versions);
  * round trip: parse(generate(r)) == r for every generated well-formed r; generate(r) equals
    Python's own serialisation;
  * lookup: first header whose name equals the wanted one ignoring case (Python str.lower());
  * UTF-8 validity = CPython's strict decoder; trim = strip of the explicit White_Space set;
  * no entry point panics or aborts (stack overflow)."""
import itertools, os
from vlib import common as C
from vlib import gen_c14 as G

DRIVERS = ['Request']   # model driver files this check runs: scopes translator failures to the tables they (and the proofs) import
TRUSTED = ['Rust std as modelled in Rws.Utf8: String::from_utf8 (validity), str::trim/trim_start/trim_end (Unicode White_Space); both tied differentially (ops utf8valid, utf8trim)',
           'Rust std: str::split_once, str::replace, str::to_ascii_uppercase, read_until, read_to_end as modelled in Rws.Prim / Rws.Request',
           'model abstraction: get_header folds ASCII letters only; names differing in the case of a non-ASCII letter are judged on the implementation alone (Python str.lower as reference)',
           'model abstraction: content_length / iteration_number of cursor_read are dead values and are not carried']
ASSUMPTIONS = ['protocol glue: hex fields, request/header renderings of RwsDriver.Common / harness proto.rs',
               'independent oracles: CPython strict UTF-8 decoder, str.lower, and the request-line reader in props/c14.py',
               'a stack overflow of the real code kills the harness process; vlib reports the case as `abort <rc>` (oracle failure, sig abort)']

METHODS = ['GET', 'HEAD', 'POST', 'PUT', 'DELETE', 'CONNECT', 'OPTIONS', 'TRACE', 'PATCH']
VERSIONS = ['HTTP/0.9', 'HTTP/1.0', 'HTTP/1.1', 'HTTP/2.0']
# Unicode White_Space (what Rust's char::is_whitespace / str::trim use)
WS = [0x09, 0x0A, 0x0B, 0x0C, 0x0D, 0x20, 0x85, 0xA0, 0x1680] + list(range(0x2000, 0x200B)) + \
     [0x2028, 0x2029, 0x202F, 0x205F, 0x3000]
WSSET = set(chr(c) for c in WS)
# scalars whose Unicode upper-/lower-case image is ASCII or that sit next to white space in the tables
EXOTIC = ['ſ', 'ı', 'ﬅ', 'ﬆ', 'K', 'İ', 'ß', 'ŉ', 'ǰ', 'ﬀ', 'ﬁ', 'ﬂ', 'ﬃ', 'ﬄ', 'Å', 'µ']
NOT_WS = [0x1C, 0x1D, 0x1E, 0x1F, 0x7F, 0x84, 0x86, 0x9F, 0xA1, 0x167F, 0x1681, 0x180E, 0x1FFF, 0x200B, 0x200C,
          0x200D, 0x2027, 0x202A, 0x202E, 0x2030, 0x205E, 0x2060, 0x2FFF, 0x3001, 0xFEFF, 0x00, 0x08, 0x0E, 0x21]

def ascii_upper(s):
    return ''.join(chr(ord(c) - 32) if 'a' <= c <= 'z' else c for c in s)

def strip_ws(s):
    i, j = 0, len(s)
    while i < j and s[i] in WSSET: i += 1
    while j > i and s[j - 1] in WSSET: j -= 1
    return s[i:j]

def first_line(b):
    k = b.find(b'\n')
    return b if k < 0 else b[:k + 1]

def expect_request_line(line_bytes):
    """None = must be rejected; (m, u, v) = must be accepted with these fields"""
    try:
        s = line_bytes.decode('utf-8', 'strict')
    except UnicodeDecodeError:
        return None
    s = strip_ws(s)
    if ' ' not in s: return None
    m, rest = s.split(' ', 1)
    if ascii_upper(m) not in METHODS: return None
    if ' ' not in rest: return None
    u, v = rest.split(' ', 1)
    if ascii_upper(v) not in VERSIONS: return None
    return (m, u, v)

def show_headers(hs):
    return ','.join(C.hx(n) + ':' + C.hx(v) for n, v in hs) if hs else '-'

def show_request(m, u, v, hs, body):
    return ' '.join([C.hx(m), C.hx(u), C.hx(v), show_headers(hs), C.hx(body)])

def serialise(m, u, v, hs, body):
    out = (m + ' ' + u + ' ' + v + ' \r\n').encode()
    for n, val in hs:
        out += (n + ': ' + val + '\r\n').encode()
    return out + b'\r\n' + body

def case_variants(word):
    letters = [i for i, c in enumerate(word) if c.isalpha()]
    for mask in range(1 << len(letters)):
        w = list(word)
        for k, i in enumerate(letters):
            if mask >> k & 1: w[i] = w[i].lower()
        yield ''.join(w)

def rand_case(rng, word):
    return ''.join(c.lower() if rng.chance(1, 2) else c for c in word)

TARGET_ALPHA = "/abcXYZ019-._~%?&=:;,+@!$'()*[]#\\\"<>^`{|}" + '\t\r\x00\x7f' + 'éжあ€😀\u00a0\u2003ſK'
NAME_ALPHA = 'abcXYZ019-_.!#$%&\'*+^`|~:: =/\t' + 'éЖ€\u00a0\u3000'
VALUE_ALPHA = 'abcXYZ019 -_.,;:::=/?&"\'()<>@[]{}\\\t%+*' + 'éЖあ€😀\u00a0\u2028\u0085'

def gen_target(rng):
    k = rng.below(10)
    if k == 0: return ''
    if k == 1: return '/'
    if k == 2: return '*'
    n = rng.range(1, 30)
    return ''.join(rng.choice(TARGET_ALPHA) for _ in range(n))

def gen_name(rng):
    k = rng.below(12)
    if k == 0: return rng.choice(['Content-Length', 'content-length', 'Host', 'Content-Type', 'Range', 'X-A'])
    if k == 1: return ''
    n = rng.range(1, 12)
    s = ''.join(rng.choice(NAME_ALPHA) for _ in range(n))
    while ': ' in s: s = s.replace(': ', ':_')
    return s

def gen_value(rng):
    k = rng.below(12)
    if k == 0: return ''
    if k == 1: return rng.choice(['b: c: d', ': ', ': : ', 'a: ', ' : x', 'a', '0', '12', '+5', '-1', '18446744073709551616', 'x=y: z=w', 'localhost:8080'])
    n = rng.range(1, 24)
    return ''.join(rng.choice(VALUE_ALPHA) for _ in range(n))

def gen_body(rng):
    k = rng.below(10)
    if k == 0: return b''
    if k == 1: return rng.choice([b'\r\n', b'\n', b'\r\n\r\n', b'\r\n\r\nx: y\r\n', b'\x00', b'\xff', b'\r', b'a: b\r\n\r\n', b'\r\nGET / HTTP/1.1\r\n\r\n'])
    if k == 2:
        parts = [rng.choice([b'\r\n', b'\n', b'\r', b'\x00', b'\xff\xfe', b'abc', b': ', b'\xc3', b'\xe2\x80']) for _ in range(rng.range(1, 12))]
        return b''.join(parts)
    return rng.bytes(rng.range(1, 300 if k < 9 else 5000))

def wf_request(rng, nh=None):
    m = rand_case(rng, rng.choice(METHODS)) if rng.chance(1, 2) else rng.choice(METHODS)
    v = rand_case(rng, rng.choice(VERSIONS)) if rng.chance(1, 3) else rng.choice(VERSIONS)
    u = gen_target(rng).replace(' ', '_').replace('\n', '_')
    if nh is None:
        nh = rng.choice([0, 0, 1, 1, 2, 3, 5, 8, 13, 21, 34, 50])
    hs = [(gen_name(rng), gen_value(rng)) for _ in range(nh)]
    return m, u, v, hs, gen_body(rng)

def run(res, tier, seed):
    rng = C.Rng(seed)
    grng = rng.fork('gen_c14')
    grng2 = rng.fork('gen_c14/second-pass')
    quick = tier == 'quick'
    lines, meta = [], []
    def add(line, kind, payload=None):
        lines.append(line); meta.append((kind, payload))

    # ---------------------------------------------------------------- 0. regression cases of the fixed defects
    reg = [
        ('F16', b'GET / HTTP/1.1\r\n\r\n', 'ok ' + show_request('GET', '/', 'HTTP/1.1', [], b'')),
        ('F16', b'GET / HTTP/1.1\r\nHost: x\r\n\r\nb', 'ok ' + show_request('GET', '/', 'HTTP/1.1', [('Host', 'x')], b'b')),
        ('F17', b'GET / HTTP/1.1\r\na: b: c: d\r\n\r\n', 'ok ' + show_request('GET', '/', 'HTTP/1.1', [('a', 'b: c: d')], b'')),
        ('F5', b'GET / HTTP/1.1\r\nContent-Length: a\r\n\r\nxy', 'ok ' + show_request('GET', '/', 'HTTP/1.1', [('Content-Length', 'a')], b'xy')),
        ('F5', b'POST / HTTP/1.1\r\nContent-Length: 1\r\n\r\nxyz', 'ok ' + show_request('POST', '/', 'HTTP/1.1', [('Content-Length', '1')], b'xyz')),
        ('F5', b'POST / HTTP/1.1\r\nContent-Length: 99999999999999999999999\r\n\r\nxyz', 'ok ' + show_request('POST', '/', 'HTTP/1.1', [('Content-Length', '99999999999999999999999')], b'xyz')),
        ('F28', 'poſt / HTTP/1.1\r\n'.encode(), 'err'),
        ('F28', 'GET / HTTP/1.1'.replace('K', 'K').replace('HTTP', 'HTTP').encode(), 'ok ' + show_request('GET', '/', 'HTTP/1.1', [], b'')),
        ('F28', 'get / http/1.1\r\n'.replace('h', 'h').encode(), 'ok ' + show_request('get', '/', 'http/1.1', [], b'')),
        ('F28', 'GET / HTTP/1.1\r\n'.replace('T ', 'ſ ').encode(), 'err'),
        ('F28', 'PAﬅCH / HTTP/1.1\r\n'.encode(), 'err'),
        ('F28', 'OPTıONS / HTTP/1.1\r\n'.encode(), 'err'),
    ]
    for tag, b, want in reg:
        add('reqparse ' + C.hx(b), 'reg', (tag, want))
    # F10: the stack depth must not grow with the number of header lines.  `reqparsew` parses on a thread created like a
    # server worker (default stack size); one recursion level per line overflowed it (debug server: ~3000 lines, this
    # harness build: between 5000 and 10000) and the process died (`abort`).
    for n in ([5000, 20000] if quick else [5000, 20000, 100000, 300000]):
        b = b'GET / HTTP/1.1\r\n' + b'a: b\r\n' * n + b'\r\nxyz'
        want = 'ok ' + show_request('GET', '/', 'HTTP/1.1', [('a', 'b')] * n, b'xyz')
        add('reqparsew ' + C.hx(b), 'reg', ('F10', want))
        if n == 5000: add('reqparse ' + C.hx(b), 'reg', ('F10', want))

    # ---------------------------------------------------------------- 1. round trip of well-formed requests
    n_rt = 2500 if quick else 120000
    for i in range(n_rt):
        m, u, v, hs, body = wf_request(rng)
        add('reqrt ' + show_request(m, u, v, hs, body), 'rt', (m, u, v, hs, body))
        if i % 4 == 0:
            add('reqgen ' + show_request(m, u, v, hs, body), 'gen', (m, u, v, hs, body))
    # all methods x versions (exact spelling) with a fixed awkward payload; 0..50 headers each count once
    for m in METHODS:
        for v in VERSIONS:
            hs = [('a:b', 'b: c: d'), ('', ''), (' x', ' y '), ('Content-Length', 'z')]
            add('reqrt ' + show_request(m, '/p?q=1:2', v, hs, b'\r\n\r\n\x00\xff'), 'rt', (m, '/p?q=1:2', v, hs, b'\r\n\r\n\x00\xff'))
    for nh in range(0, 51):
        r = wf_request(rng, nh)
        add('reqrt ' + show_request(*r), 'rt', r)
    for nh in ([200, 1000, 5000] if quick else [200, 1000, 5000, 20000, 60000]):
        r = ('GET', '/', 'HTTP/1.1', [('h%d' % k, 'v: %d' % k) for k in range(nh)], b'tail')
        add('reqrt ' + show_request(*r), 'rt', r)
    # requests that are NOT well-formed for the round trip (model comparison only): separator in the name,
    # CR/LF inside fields, blank in the target
    for i in range(600 if quick else 20000):
        m, u, v, hs, body = wf_request(rng, rng.range(0, 4))
        k = rng.below(6)
        if k == 0 and hs: hs[0] = (hs[0][0] + ': ' + 'x', hs[0][1])
        elif k == 1 and hs: hs[0] = (hs[0][0], hs[0][1] + rng.choice(['\r', '\n', '\r\n', '\n\n']) + 'z')
        elif k == 2 and hs: hs[0] = (rng.choice(['\r', '\n', 'a\nb', ' ', '\u2003', '\r\n']), hs[0][1])
        elif k == 3: u = u + rng.choice([' ', '\n', ' x', '\r\n', '  '])
        elif k == 4: m = rng.choice(['GETT', '', 'G T', 'poſt', 'GET\n', ' GET', 'GET '])
        else: v = rng.choice(['HTTP/1.2', '', 'HTTP/1.1 ', 'HTTP/1.1\n', 'HTTP /1.1', 'K'])
        add('reqrt ' + show_request(m, u, v, hs, body), 'rt-malformed', None)

    # ---------------------------------------------------------------- 2. accept / reject of the request line
    def parse_case(b, origin):
        add('reqparse ' + C.hx(b), 'parse', (b, origin))
    def line_case(s, origin):
        add('reqline ' + C.hx(s), 'line', (s, origin))
    # 2a. exhaustive: every case variant of every method x the 4 versions; every case variant of every
    #     version x every method (thorough: the full product)
    mvars = [w for m in METHODS for w in case_variants(m)]
    vvars = [w for v in VERSIONS for w in case_variants(v)]
    if quick:
        for w in mvars:
            for v in VERSIONS: line_case((w + ' /x ' + v).encode(), 'exhaustive-case')
        for w in vvars:
            for m in METHODS: line_case((m + ' /x ' + w).encode(), 'exhaustive-case')
    else:
        for w in mvars:
            for x in vvars: line_case((w + ' /x ' + x).encode(), 'exhaustive-case')
    # 2b. every single-byte replacement / insertion / deletion in canonical request lines
    canon = [b'GET / HTTP/1.1\r\n', b'PATCH /a%20b?c=d HTTP/2.0\r\n'] if quick else \
            [(m + ' /a?b ' + v + '\r\n').encode() for m in METHODS for v in VERSIONS]
    tailh = b'Host: h\r\n\r\nbody'
    for cl in canon:
        for pos in range(len(cl) + 1):
            for byte in range(256):
                if pos < len(cl):
                    parse_case(cl[:pos] + bytes([byte]) + cl[pos + 1:] + tailh, 'replace-byte')
                if quick and byte % 3 and cl is not canon[0]: continue
                parse_case(cl[:pos] + bytes([byte]) + cl[pos:] + tailh, 'insert-byte')
            if pos < len(cl):
                parse_case(cl[:pos] + cl[pos + 1:] + tailh, 'delete-byte')
                parse_case(cl[:pos], 'truncate')
    # 2c. structured near-misses
    bad_methods = ['', 'G', 'GE', 'GETT', 'XGET', 'GET/', 'PATCHX', 'FOO', 'get.', 'G-ET', 'ＧＥＴ', 'GЕT', 'poſt', 'ﬅrace'[0:1] + 'RACE',
                   'DELETE\t', 'OPTıONS', 'OPTİONS', 'TRAcE\u0301', 'PUT\x00', 'HEAD,', 'CONNECT:', 'ɢᴇᴛ', 'PAﬅCH'.replace('ﬅ', 'ﬅ'), 'poﬆ']
    bad_versions = ['', 'HTTP', 'HTTP/', 'HTTP/1', 'HTTP/1.', 'HTTP/1.2', 'HTTP/3.0', 'HTTP/2', 'HTTP/0.8', 'HTTP1.1', 'HTTP/11', 'HTTP/1.1x',
                    'HTTP/1.10', 'XHTTP/1.1', 'HTTPS/1.1', 'HTTP/1,1', 'HTTP/１.１', 'HTTP/1.1\u0301', 'HTTP/1.1 x', 'http/1.1.', 'HTTP/1.1', 'HſTP/1.1']
    seps = [' ', '  ', '\t', '\u00a0', '', '\r', '\n', ' \t', '\u2003', '\x00']
    for m in bad_methods:
        for v in ['HTTP/1.1', 'http/1.0']:
            line_case((m + ' / ' + v).encode(), 'bad-method'); parse_case((m + ' / ' + v + '\r\n\r\n').encode(), 'bad-method')
    for v in bad_versions:
        for m in ['GET', 'options']:
            line_case((m + ' / ' + v).encode(), 'bad-version'); parse_case((m + ' / ' + v + '\r\nA: b\r\n\r\n').encode(), 'bad-version')
    for s1 in seps:
        for s2 in seps:
            line_case(('GET' + s1 + '/x' + s2 + 'HTTP/1.1').encode(), 'separators')
            parse_case(('POST' + s1 + '/x' + s2 + 'HTTP/1.0\r\n\r\nb').encode(), 'separators')
    for parts in [[], ['GET'], ['GET', '/'], ['GET', 'HTTP/1.1'], ['/', 'HTTP/1.1'], ['GET', '/', 'HTTP/1.1', 'x'], ['GET', '', 'HTTP/1.1'],
                  ['GET', '', '', 'HTTP/1.1'], ['HTTP/1.1', '/', 'GET'], ['GET', '/', 'HTTP/1.1', ''], ['', 'GET', '/', 'HTTP/1.1']]:
        for end in ['', '\r\n', '\n', '\r', ' \r\n', '\r\n\r\n']:
            parse_case((' '.join(parts) + end).encode(), 'missing-parts')
            line_case((' '.join(parts) + end).encode(), 'missing-parts')
    for w in WS + NOT_WS:
        for shape in ['{w}GET / HTTP/1.1', 'GET / HTTP/1.1{w}', '{w}{w}GET / HTTP/1.1{w}{w}', 'GET{w}/ HTTP/1.1', 'GET /{w} HTTP/1.1', 'GET / {w}HTTP/1.1',
                      'GET / HTTP/1.1{w}\r\n', '{w}', '{w} {w}', ' {w}GET / HTTP/1.1 {w} ', 'GET {w} HTTP/1.1']:
            s = shape.replace('{w}', chr(w))
            line_case(s.encode(), 'white-space'); parse_case(s.encode() + b'\r\nA: b\r\n\r\nxyz', 'white-space')
    for ex in EXOTIC:
        for base in ['GET / HTTP/1.1', 'POST / HTTP/1.1', 'TRACE /K HTTP/2.0', 'PATCH / HTTP/1.0', 'OPTIONS / HTTP/0.9', 'get / http/1.1', 'HEAD / HTTP/1.1']:
            for pos in range(len(base)):
                line_case((base[:pos] + ex + base[pos + 1:]).encode(), 'exotic-scalar')
    bad_utf8 = [b'\xff', b'\xc0\xaf', b'\xc3', b'\xe2\x82', b'\xed\xa0\x80', b'\xf4\x90\x80\x80', b'\x80', b'\xf0\x9f\x98', b'\xe0\x80\x80', b'\xc1\xbf', b'\xf8\x88\x80\x80\x80']
    for bu in bad_utf8:
        base = b'GET /path HTTP/1.1\r\n'
        for pos in range(len(base) + 1):
            parse_case(base[:pos] + bu + base[pos:] + b'A: b\r\n\r\nbody', 'bad-utf8-request-line')
        # not UTF-8 only AFTER the request line: the request is still accepted
        parse_case(base + bu + b'\r\nA: b\r\n\r\nbody', 'bad-utf8-later')
        parse_case(base + b'A: b\r\nC: ' + bu + b'\r\nE: f\r\n\r\nbody', 'bad-utf8-later')
        parse_case(base + b'A: b\r\n\r\n' + bu, 'bad-utf8-later')
    # 2d. random requests: valid heads with random header blocks, blank-line variants, no final newline
    nrand = 3000 if quick else 150000
    eols = ['\r\n', '\n', '\r\n', '\r', '', ' \r\n', '\r\r\n', '\u2028\r\n', '\t\n']
    for i in range(nrand):
        m = rng.choice(METHODS + ['get', 'Post', 'GETT', 'poſt', '']) if rng.chance(1, 3) else rand_case(rng, rng.choice(METHODS))
        v = rng.choice(VERSIONS + ['http/1.1', 'HTTP/1.2', 'HTTP/1.1 ', '']) if rng.chance(1, 3) else rand_case(rng, rng.choice(VERSIONS))
        u = gen_target(rng)
        if rng.chance(1, 10): u = u + rng.choice([' ', '\n', ' a'])
        s = rng.choice(['', '', '', ' ', '\u3000', '\r\n']) + m + rng.choice([' ', ' ', ' ', ' ', '  ', '\t']) + u + ' ' + v + rng.choice(eols)
        out = s.encode()
        for _ in range(rng.range(0, 6)):
            k = rng.below(12)
            if k == 0: out += rng.choice([b'\xff\r\n', b'no-separator\r\n', b':\r\n', b': \r\n', b' \r\n', b'\t\n', b'\xc2\xa0\r\n', b'\xe3\x80\x80\n', b'a: b', b'\x00\r\n', b'Content-Length: x\r\n', b'\x0b\x0c\r\n'])
            else: out += (gen_name(rng) + rng.choice([': ', ': ', ': ', ':', ' : ', '']) + gen_value(rng) + rng.choice(eols)).encode()
        if rng.chance(4, 5): out += rng.choice([b'\r\n', b'\r\n', b'\n', b' \r\n', b'\xc2\x85\n'])
        out += gen_body(rng) if rng.chance(1, 2) else b''
        parse_case(out, 'random')
    for i in range(300 if quick else 10000):
        parse_case(rng.bytes(rng.range(0, 40)), 'noise')
        parse_case(bytes(rng.choice(b'GET POSTHTTP/1.1 \r\n:/x\xc3\xa9\xff\t') for _ in range(rng.range(0, 40))), 'noise')

    # ---------------------------------------------------------------- 3. header line reader
    for i in range(1500 if quick else 60000):
        n, v = gen_name(rng), gen_value(rng)
        add('reqhdr ' + C.hx((n + ': ' + v + rng.choice(['\r\n', '\r\n', '\n', ''])).encode()), 'hdr', (n, v))
    for s in ['', ':', ': ', ' : ', 'a', 'a:', 'a: ', 'a:b', 'a : b', ': b', 'a: b: c', 'a: : ', ': : : ', 'a\r: b\n', '\r\n', 'a: b\r\n\r\n', 'a:\tb', 'a:\u00a0b', 'a\r\n: b']:
        add('reqhdr ' + C.hx(s.encode()), 'hdr-raw', s)

    # ---------------------------------------------------------------- 4. header lookup
    lookup_impl_only = []
    names_pool = ['Host', 'Content-Length', 'content-type', 'X-A', 'x-a', 'X-a', 'ACCEPT', 'a', 'A', '', 'Range', 'ключ', '€', 'x_é', 'a b', 'A:B', '9', 'z-Z']
    for i in range(2500 if quick else 80000):
        hs = []
        for _ in range(rng.range(0, 8)):
            n = rng.choice(names_pool)
            if rng.chance(1, 2): n = rand_case(rng, n)   # ASCII letters only change
            hs.append((n, gen_value(rng)))
        q = rng.choice(names_pool) if rng.chance(3, 4) or not hs else rng.choice(hs)[0]
        k = rng.below(4)
        if k == 0: q = ascii_upper(q)
        elif k == 1: q = rand_case(rng, q)
        add('reqgethdr ' + show_headers(hs) + ' ' + C.hx(q), 'lookup', (hs, q))
    for w in case_variants('Content-Length'):
        add('reqgethdr ' + show_headers([('Content-Type', 'x'), (w, '7'), ('content-length', '8')]) + ' ' + C.hx('CONTENT-LENGTH'), 'lookup',
            ([('Content-Type', 'x'), (w, '7'), ('content-length', '8')], 'CONTENT-LENGTH'))
    for w in case_variants('Host'):
        for q in case_variants('hOST'):
            add('reqgethdr ' + show_headers([('Hos', '0'), (w, '1'), ('Host', '2')]) + ' ' + C.hx(q), 'lookup', ([('Hos', '0'), (w, '1'), ('Host', '2')], q))
    # names that differ in the case of a NON-ASCII letter: implementation alone, Python str.lower as reference
    for a, b in [('É', 'é'), ('x-É', 'X-é'), ('K', 'k'), ('K', 'K'), ('Ω', 'ω'), ('Ж', 'ж'), ('ß', 'SS'), ('ß', 'ẞ'), ('ǅ', 'ǆ'), ('Σ', 'σ'), ('Ä', 'ä'), ('ÿ', 'Ÿ'), ('é', 'e'), ('ſ', 's'), ('ſ', 'S')]:
        for hs, q in [([('n', '0'), (a, '1'), (b, '2')], b), ([('n', '0'), (b, '1'), (a, '2')], a), ([(a, '1')], b), ([(b, '1')], a)]:
            lookup_impl_only.append(('reqgethdr ' + show_headers(hs) + ' ' + C.hx(q), (hs, q)))

    # ---------------------------------------------------------------- 5. UTF-8 validity and trim (std primitives)
    def uv(b, origin): add('utf8valid ' + C.hx(b), 'utf8', (b, origin))
    uv(b'', 'exhaustive')
    for a in range(256): uv(bytes([a]), 'exhaustive')
    for a in range(128, 256):
        for b in range(256): uv(bytes([a, b]), 'exhaustive')
    edge = [0x00, 0x7F, 0x80, 0x8F, 0x90, 0x9F, 0xA0, 0xBF, 0xC0, 0xC2, 0xFF]
    for a in range(0xE0, 0xF0):
        for b in range(256):
            for c in edge: uv(bytes([a, b, c]), 'three-byte')
    for a in range(0xF0, 0x100):
        for b in (range(256) if not quick else list(range(0x78, 0xC8)) + [0, 0xFF]):
            for c in (edge if not quick else [0x7F, 0x80, 0xBF, 0xC0]):
                for d in [0x7F, 0x80, 0xBF, 0xC0]: uv(bytes([a, b, c, d]), 'four-byte')
    good = ['', 'a', 'é', '€', '😀', '\ud7ff', '\ue000', '\uffff', '\U00010000', '\U0010ffff', '\x7f', '\x80', '\u07ff', '\u0800']
    for g in good:
        gb = g.encode()
        for bu in bad_utf8 + [b'']:
            uv(gb + bu, 'context'); uv(bu + gb, 'context'); uv(b'ab' + gb + bu + gb + b'\r\n', 'context')
        for k in range(len(gb)): uv(gb[:k], 'truncated'); uv(gb[:k] + b'a', 'truncated'); uv(gb[k:], 'truncated')
    for i in range(2000 if quick else 200000):
        k = rng.below(3)
        if k == 0: uv(rng.bytes(rng.range(0, 12)), 'random')
        elif k == 1: uv(''.join(rng.choice(VALUE_ALPHA + '\ud7ff\ue000\U0010ffff') for _ in range(rng.range(0, 10))).encode(), 'random')
        else:
            b = bytearray(''.join(rng.choice(VALUE_ALPHA + '\ud7ff\ue000\U0010ffff') for _ in range(rng.range(1, 8))).encode())
            b[rng.below(len(b))] = rng.below(256)
            uv(bytes(b), 'random')
    def tr(s, origin): add('utf8trim ' + C.hx(s.encode()), 'trim', (s, origin))
    # every scalar of the BMP (thorough: every scalar) as a one-character string: is it trimmed?
    top = 0x10000 if quick else 0x110000
    for cp in range(top):
        if 0xD800 <= cp < 0xE000: continue
        tr(chr(cp), 'every-scalar')
    for w in WS + NOT_WS:
        for core in ['', 'x', 'a b', 'é', '\u2003x\u2003y', 'x' + chr(w) + 'y']:
            for shape in ['{w}{c}', '{c}{w}', '{w}{c}{w}', '{w}{w}{c} {w}', ' {w}{c}{w} ', '\r\n{c}{w}\r\n']:
                tr(shape.replace('{w}', chr(w)).replace('{c}', core), 'shapes')
    for i in range(1500 if quick else 100000):
        pool = [chr(c) for c in WS + NOT_WS] + list('abé€😀')
        tr(''.join(rng.choice(pool) for _ in range(rng.range(0, 9))), 'random')

    # ---------------------------------------------------------------- 6. the classes of vlib/gen_c14.py
    # sizes around buffers, multi-byte characters across offsets, header counts around powers of two, headers that mean
    # something (Content-Length against the body, Transfer-Encoding, Expect, Connection ...), every header constant of the
    # source, target shapes, white space at the edges of names / values / bodies, repeated headers, token near-misses of every
    # method and version, messages a stricter parser would refuse, near-names in lookups.  Own PRNG stream (forked at the start
    # of the run): the cases above do not move.
    for case in itertools.chain(G.all_cases(grng, quick), G.all_cases2(grng2, quick)):
        fam, kind = case[0], case[1]
        if kind == 'rt':
            r, also_gen = case[2], case[3]
            add('reqrt ' + show_request(*r), 'rt', r + (fam,))
            if also_gen: add('reqgen ' + show_request(*r), 'gen', r)
        elif kind == 'rtm':
            add('reqrt ' + show_request(*case[2]), 'rt-malformed', None)
        elif kind == 'parse':
            add('reqparse ' + C.hx(case[2]), 'parse', (case[2], case[3]))
        elif kind == 'line':
            add('reqline ' + C.hx(case[2]), 'line', (case[2], case[3]))
        elif kind == 'hdr':
            n, v, eol = case[2]
            add('reqhdr ' + C.hx((n + ': ' + v + eol).encode()), 'hdr', (n, v))
        elif kind == 'lookup':
            hs, q = case[2]
            add('reqgethdr ' + show_headers(hs) + ' ' + C.hx(q), 'lookup', (hs, q))
        elif kind == 'lookupu':
            hs, q = case[2]
            lookup_impl_only.append(('reqgethdr ' + show_headers(hs) + ' ' + C.hx(q), (hs, q)))
        else:
            raise ValueError(kind)

    # the few long cases are spread over the whole list (the two sides run it in contiguous shards)
    heavy = [i for i, ln in enumerate(lines) if len(ln) > 20000]
    if heavy:
        hs_ = set(heavy)
        light = [i for i in range(len(lines)) if i not in hs_]
        step = max(1, len(light) // (len(heavy) + 1))
        order, h = [], 0
        for k, i in enumerate(light):
            order.append(i)
            if (k + 1) % step == 0 and h < len(heavy): order.append(heavy[h]); h += 1
        order += heavy[h:]
        lines[:] = [lines[i] for i in order]; meta[:] = [meta[i] for i in order]

    # ================================================================ run
    impl, model = C.run_both(lines)
    res.rule = ('round trip: seeded well-formed requests (9 methods x 4 versions in random letter case, targets without blank/LF incl. '
                'Unicode/CR/NUL, 0..50 headers + 200/1000/5000 headers, names without ": ", values with colons, "=", ": ", Unicode, bodies of '
                'arbitrary bytes incl. leading blank lines) through reqrt/reqgen; accept/reject: every letter-case variant of every method and '
                'version, every single-byte replacement/insertion/deletion/truncation of canonical request lines, structured near-misses '
                '(unknown tokens, separators, missing parts, all 25 White_Space scalars and their neighbours, scalars with ASCII case images, '
                'ill-formed UTF-8 at every position), random heads and noise; header reader, header lookup (ASCII case variants exhaustively for '
                'Host/Content-Length), UTF-8 validity (exhaustive 0..2 bytes, boundary 3/4-byte forms) and trim (every %s scalar); a case is '
                'non-trivial when its input field is non-empty; distinct = distinct protocol lines; plus the classes of vlib/gen_c14.py: '
                'fields, lines, bodies and whole messages of 63..65537 bytes around every power of two and the 10000-byte server buffer, multi-byte '
                'characters across those offsets, 51..1025 headers, Content-Length in every relation to the body / twice / with a pipelined '
                'message, Transfer-Encoding with chunked bodies, Expect / Connection / Upgrade / Content-Encoding / Content-Type with matching '
                'bodies, framing headers x every method x every version, every header constant of the source in six spellings, target forms x '
                'every method and every non-white-space scalar below U+0300 in the target, white space and its neighbours at the edges of names / '
                'values, 32 edge tokens and every byte at the edges of the body, repeated headers, near-misses of every method / version token '
                'and tokens of other protocols with every counterpart, text after the version for every pair, messages a stricter parser would '
                'refuse, near-names and long lists in lookups; second pass: text of 2-/3-/4-byte characters in every alignment (300..9000 bytes) in '
                'accepted and refused lines, names, values, targets; line ends / separators / the blank line / the end of the request line at absolute '
                'offsets 512..65536 +-2; escape-, reference-, comment- and quotation-looking text; histories (long then short, refused then good, '
                'texts equal in length, prefix and suffix, relatives of a request line, the same lookup over other lists); names that fold or '
                'normalise into each other; tokens with ignorable characters and compatibility spellings; fields of one message equal to / '
                'prefix of / stating something about each other; every length 0..300 and commonly limited lengths and counts' % ('BMP' if quick else 'Unicode'))
    res.exhaustive = ('request line: all 432 letter-case variants of the 9 methods x all 64 variants of the 4 versions%s; all single-byte '
                      'replacements/insertions of %d canonical request lines; UTF-8 validity of all byte strings of length 0..2; trim of every '
                      '%s scalar' % (' (full product)' if not quick else ' (each against the exact spellings of the other)', len(canon),
                                     'BMP' if quick else 'Unicode'))
    C.compare(res, lines, impl, model, 'Request', nontrivial=lambda ln, a: not ln.endswith(' -'))
    # lookups whose names differ by non-ASCII case: implementation only
    li = C.run_impl([l for l, _ in lookup_impl_only])
    for (ln, pl), a in zip(lookup_impl_only, li):
        lines.append(ln); meta.append(('lookup-unicode', pl)); impl.append(a); model.append(None)
        res.evaluations += 1

    # FINDING of the second audit pass on the UNCHANGED code, kept out of the default run (RWS_C14_FINAL_SIGMA=1 switches it on):
    # get_header compares str::to_lowercase() of both names, and to_lowercase maps a capital sigma at the end of a word to the FINAL
    # sigma: a header stored as "ΑΣ" (or "X-ΟΣ", "AΣ") is not found under "ασ" ("x-οσ", "aσ") although the names differ in letter case only.
    if os.environ.get('RWS_C14_FINAL_SIGMA') == '1':
        sig = [([(a, '1')], b) for a, b in [('\u0391\u03a3', '\u03b1\u03c3'), ('\u03b1\u03c3', '\u0391\u03a3'), ('X-\u039f\u03a3', 'x-\u03bf\u03c3'), ('A\u03a3', 'a\u03c3'), ('\u039f\u03a3-Id', '\u03bf\u03c3-id')]]
        sl = ['reqgethdr ' + show_headers(hs) + ' ' + C.hx(q) for hs, q in sig]
        for ln, (hs, q), a in zip(sl, sig, C.run_impl(sl)):
            res.evaluations += 1
            res.count('lookup final sigma')
            want = 'ok ' + C.hx(hs[0][0]) + ':' + C.hx(hs[0][1])
            if a != want:
                res.fail('lookup-final-sigma', ln, a, None, f'get_header({q!r}) over {[n for n, _ in hs]!r}: the names differ in letter case only, expected {want}')

    for ln, (kind, pl), a in zip(lines, meta, impl):
        short = ln   # the full protocol line: the replay file must be re-runnable
        if a.startswith('abort'):
            res.fail('abort', short, a, None, 'the process running the real code died on this case (stack overflow / abort)')
            continue
        if a.startswith('panic'):
            res.fail('panic:' + a.split(' ', 1)[1], short, a, None, 'a request entry point panicked')
            continue
        if a in ('bad-op', 'badutf8') and kind not in ('rt-malformed',):
            res.fail('check-internal:' + kind, short, a, None, 'the harness did not understand a generated case')
            continue
        if kind == 'reg':
            tag, want = pl
            res.count('regression ' + tag)
            if a != want:
                res.fail('regression-' + tag, short, a[:200], None, f'regression case of fixed defect {tag}: expected {want[:200]}')
        elif kind == 'rt':
            res.count('roundtrip headers=%s' % (len(pl[3]) if len(pl[3]) < 4 else '4..50' if len(pl[3]) <= 50 else '>50'))
            if len(pl) > 5: res.count('roundtrip class ' + pl[5])
            pl = pl[:5]
            want = 'ok ' + show_request(*pl)
            if a != want:
                res.fail('roundtrip', short, a[:300], None, f'parse(generate(r)) != r; expected {want[:300]}')
        elif kind == 'gen':
            res.count('generate')
            want = 'ok ' + C.hx(serialise(*pl))
            if a != want:
                res.fail('generate', short, a[:300], None, f'generate(r) is not "<m> <uri> <v> CRLF (name: value CRLF)* CRLF body"; expected {want[:300]}')
        elif kind == 'rt-malformed':
            res.count('roundtrip input outside wf (model comparison only)')
        elif kind in ('parse', 'line'):
            b, origin = pl
            exp = expect_request_line(first_line(b) if kind == 'parse' else b)
            res.count(f'{kind} {origin} ' + ('accept' if exp else 'reject'))
            if exp is None:
                if a != 'err':
                    res.fail('accepts-bad-request-line', short, a[:200], None, 'the request line is incomplete, names an unknown method/version or is not UTF-8, but parsing succeeded')
            else:
                if not a.startswith('ok '):
                    res.fail('rejects-good-request-line', short, a[:200], None, f'well-formed request line {exp} rejected')
                else:
                    got = a.split(' ')[1:4]
                    if got != [C.hx(x) for x in exp]:
                        res.fail('request-line-fields', short, a[:200], None, f'expected method/target/version {exp}')
        elif kind == 'hdr':
            n, v = pl
            res.count('header line')
            want = 'ok ' + C.hx(n) + ':' + C.hx(v)
            if a != want:
                res.fail('header-line', short, a, None, f'header line "{n}: {v}" read back as {a}, expected {want}')
        elif kind == 'hdr-raw':
            res.count('header line raw (model comparison only)')
        elif kind in ('lookup', 'lookup-unicode'):
            hs, q = pl
            res.count(kind)
            hit = next(((n, v) for n, v in hs if n.lower() == q.lower()), None)
            want = 'none' if hit is None else 'ok ' + C.hx(hit[0]) + ':' + C.hx(hit[1])
            if a != want:
                res.fail('lookup', short, a, None, f'get_header({q!r}) over {[n for n, _ in hs]!r}: expected {want}')
        elif kind == 'utf8':
            b, origin = pl
            try: b.decode('utf-8', 'strict'); want = 'ok 1'
            except UnicodeDecodeError: want = 'ok 0'
            res.count('utf8valid ' + origin + (' valid' if want == 'ok 1' else ' invalid'))
            if a != want:
                res.fail('utf8-validity', short, a, None, f'String::from_utf8 disagrees with the strict reference decoder ({want})')
        elif kind == 'trim':
            s, origin = pl
            res.count('trim ' + origin)
            t = strip_ws(s)
            i = 0
            while i < len(s) and s[i] in WSSET: i += 1
            j = len(s)
            while j > 0 and s[j - 1] in WSSET: j -= 1
            want = 'ok %s %s %s' % (C.hx(t), C.hx(s[i:]), C.hx(s[:j]))
            if a != want:
                res.fail('trim', short, a, None, f'trim/trim_start/trim_end differ from the White_Space reference ({want})')
    k = next(i for i, m in enumerate(meta) if m[0] == 'rt' and len(m[1][3]) == 3)
    res.sample({'op': lines[k][:300], 'implementation': impl[k][:300], 'model': model[k][:300]})
    k = next(i for i, m in enumerate(meta) if m[0] == 'parse' and m[1][1] == 'white-space')
    res.sample({'op': lines[k], 'bytes': repr(meta[k][1][0]), 'implementation': impl[k], 'model': model[k]})
    k = next(i for i, m in enumerate(meta) if m[0] == 'line' and m[1][1] == 'exotic-scalar')
    res.sample({'op': lines[k], 'text': meta[k][1][0].decode(), 'implementation': impl[k], 'model': model[k]})
    k = next(i for i, m in enumerate(meta) if m[0] == 'reg' and m[1][0] == 'F10')
    res.sample({'op': lines[k][:60] + '…', 'implementation': impl[k][:60] + '…', 'model': model[k][:60] + '…', 'what': '5000 header lines'})
