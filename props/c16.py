"""C16 — multipart/form-data bodies round-trip part for part.
Correspondence: FormMultipartData::{generate, generate_part, parse, extract_boundary}, Part::get_header
(real code) vs Rws.Multipart (Lean model).
Oracle on the implementation alone, written independently of the model:
  * round trip: parse(generate(ps, b), b) must be exactly ps whenever the hypothesis class holds
    (checked here in Python: header texts trimmed / free of control characters / name without ':',
    the boundary does not occur in any body or header line);
  * the generated body is split by an own strict splitter (global split on the boundary, not
    line-wise) and must give ps too (the writer's format);
  * malformed bodies (no opening delimiter, no closing delimiter, headerless part, every
    truncation of a valid body) must be `err` (or, for a truncation that is itself a complete
    body, exactly the complete parts);
  * browser-shaped requests: extract_boundary(Content-Type) must be the boundary, the body with
    `--`boundary delimiter lines and the `--`boundary`--` close must give the parts;
  * the echo endpoint (second observation point): a browser-shaped form posted to
    /form-multipart-enctype-post-method is answered 200 with `<name> is <value> CRLF` per part, in order;
    the malformed shapes are not answered 200.
The input classes of the generator audit are in vlib/gen_c16.py."""
import itertools, sys
from vlib import common as C
from vlib import gen_c16 as X    # the input classes added by the generator audit (audit/C16)
from props import c16_features as F2   # the second audit: inputs on which a well-meant feature or clean-up would show its defect

DRIVERS = ['Multipart', 'Serve']   # model driver files this check runs: scopes translator failures to the tables they (and the proofs) import
TRUSTED = ['Rust std on valid UTF-8 as modelled on bytes: String::from_utf8 (Rws.Utf8M.valid), str::trim (25 White_Space '
           'characters), char::is_ascii_control, str::replace/contains/split_once, BufRead::read_until, slice::windows',
           'model abstractions (Rws/Multipart.lean header): cursor = list of remaining lines; the three loops and the recursion '
           'of parse_form_part_recursively as one state machine; Part::get_header compared for ASCII names only']
ASSUMPTIONS = ['protocol glue: hex fields; the UTF-8 gate on String arguments is String::from_utf8 in the harness and '
               'Rws.Utf8M.valid in the driver (a difference shows as a disagreement)',
               'independent oracle: own Python splitter (bytes.split on the boundary) and the shape rules in the module docstring',
               'the echo endpoint POST /form-multipart-enctype-post-method is driven through the server model and the real Server::process / '
               'process_request / App::execute / App::handle_request (vlib/gen_c16.py echo_part); oracle: 200 and `<name> is <value> CRLF` per part in order '
               'for browser-shaped forms with UTF-8 values, not 200 for the three malformed shapes of the statement']

CRLF = b'\r\n'
BCHARS_NOSPACE = "0123456789ABCDEFGHIJKLMNOPQRSTUVWXYZabcdefghijklmnopqrstuvwxyz'()+_,-./:=?"
ALNUM = "0123456789ABCDEFGHIJKLMNOPQRSTUVWXYZabcdefghijklmnopqrstuvwxyz"
# UTF-8 of char::is_whitespace characters (Unicode White_Space), typed from the Unicode table
WS = [chr(c) for c in (9, 10, 11, 12, 13, 32, 0x85, 0xA0, 0x1680, 0x2028, 0x2029, 0x202F, 0x205F, 0x3000)] + \
     [chr(c) for c in range(0x2000, 0x200B)]


# ----------------------------------------------------------------------------- protocol helpers
def parts_field(ps):
    if not ps: return '-'
    return '|'.join((','.join(C.hx(n) + ':' + C.hx(v) for n, v in hs) if hs else '-') + ';' + C.hx(b) for hs, b in ps)

def read_parts_field(f):
    if f == '-': return []
    out = []
    for p in f.split('|'):
        h, b = p.split(';')
        hs = [] if h == '-' else [tuple(C.unhx(x) for x in hv.split(':')) for hv in h.split(',')]
        out.append((hs, C.unhx(b)))
    return out

def is_bad(a):
    return a.startswith('panic') or a.startswith('abort')


# ----------------------------------------------------------------------------- the hypothesis class
def is_ctl(ch): return ord(ch) < 32 or ord(ch) == 127

def text_ok(t):
    """a header text that survives filter_ascii_control_characters + trim unchanged"""
    return not any(is_ctl(ch) for ch in t) and (t == '' or (t[0] not in WS and t[-1] not in WS))

def wf_parts(ps):
    """ps: [( [(name:str, value:str)], body:bytes )]"""
    if not ps: return False
    for hs, _ in ps:
        if not hs: return False
        for n, v in hs:
            if n == '' or ':' in n or not text_ok(n) or not text_ok(v): return False
    return True

def ok_boundary(b, ps):
    """b: str"""
    if b == '' or not text_ok(b): return False
    bb = b.encode()
    for hs, body in ps:
        if bb in body: return False
        for n, v in hs:
            if bb in (n + ': ' + v).encode(): return False
    return True

def enc_parts(ps):
    return [([(n.encode(), v.encode()) for n, v in hs], body) for hs, body in ps]


# ----------------------------------------------------------------------------- malformed shapes
def no_open_shape(data, bb):
    """the first line does not contain the boundary"""
    return bb not in data.split(b'\n')[0]

def no_close_shape(data, bb):
    """the first line contains the boundary, no later line does"""
    ls = data.split(b'\n')
    return bb in ls[0] and not any(bb in l for l in ls[1:])


# ----------------------------------------------------------------------------- own strict splitter
def strict_split(data, b):
    """The writer's format, split globally: b CRLF part (CRLF b CRLF part)* CRLF b.
    Returns the parts or None.  Only meaningful when b does not occur inside the parts."""
    pieces = data.split(b)
    if len(pieces) < 3 or pieces[0] != b'' or pieces[-1] != b'': return None
    out = []
    for pc in pieces[1:-1]:
        if not (pc.startswith(CRLF) and pc.endswith(CRLF)) or len(pc) < 4: return None
        pc = pc[2:-2]
        k = pc.find(CRLF + CRLF)
        if k < 0: return None
        hs = []
        for ln in pc[:k].split(CRLF):
            j = ln.find(b': ')
            if j < 0: return None
            hs.append((ln[:j], ln[j + 2:]))
        out.append((hs, pc[k + 4:]))
    return out


# ----------------------------------------------------------------------------- generators
def gen_boundary(rng, kind=None):
    kind = kind or rng.choice(['webkit', 'gecko', 'plain', 'punct', 'punct', 'hyph', 'hyph', 'dashes', 'len1', 'len70', 'space', 'lead'])
    if kind == 'webkit': return '----WebKitFormBoundary' + ''.join(rng.choice(ALNUM) for _ in range(16))
    if kind == 'gecko': return '-' * 27 + ''.join(rng.choice('0123456789') for _ in range(rng.range(10, 30)))
    if kind == 'plain': return ''.join(rng.choice(ALNUM) for _ in range(rng.range(1, 40)))
    if kind == 'punct': return ''.join(rng.choice(BCHARS_NOSPACE) for _ in range(rng.range(1, 70)))
    if kind == 'hyph':
        segs = [''.join(rng.choice(ALNUM) for _ in range(rng.range(1, 6))) for _ in range(rng.range(2, 6))]
        return ('-' * rng.range(0, 6)) + '-'.join(segs) + ('-' * rng.range(0, 3))
    if kind == 'dashes': return '-' * rng.range(1, 70)
    if kind == 'len1': return rng.choice(BCHARS_NOSPACE)
    if kind == 'len70': return ''.join(rng.choice(BCHARS_NOSPACE) for _ in range(70))
    if kind == 'space':
        n = rng.range(3, 70)
        s = [rng.choice(BCHARS_NOSPACE + '   ') for _ in range(n)]
        s[0] = rng.choice(ALNUM); s[-1] = rng.choice(ALNUM)
        return ''.join(s)
    if kind == 'lead': return '-' * rng.range(2, 30) + ''.join(rng.choice(ALNUM) for _ in range(rng.range(1, 30)))
    raise ValueError(kind)

NAMES = ['Content-Disposition', 'Content-Type', 'content-disposition', 'X', 'X-Custom-Header', 'Content-Transfer-Encoding',
         'Ключ', 'x-é', 'A_b.c', 'n']
VALUES = ['form-data; name="field1"', 'form-data; name="file"; filename="a b.txt"', 'text/plain; charset=utf-8', 'application/octet-stream',
          'binary', 'v', '', 'a: b: c', 'x:y', '--', '- - -', 'naïve café', '値', 'a b', 'tab-less value with  two spaces',
          'form-data; name="a-b-c"', '"quoted: value"', '8bit']

def gen_text(rng, name):
    if rng.chance(3, 4): return rng.choice(NAMES if name else VALUES)
    n = rng.range(1, 12)
    alpha = (ALNUM + "-_.!#$%&'*+^`|~") if name else (ALNUM + " -_.:;=\"'/()<>@,?[]{}é値 ")
    t = ''.join(rng.choice(alpha) for _ in range(n)).strip()
    return t or ('n' if name else 'v')

def gen_headers(rng, b=''):
    hs = [(gen_text(rng, True), gen_text(rng, False)) for _ in range(rng.range(1, 4))]
    if b and rng.chance(1, 8):
        # near misses of the boundary as a header value: hyphen-stripped form, proper suffix / prefix
        v = rng.choice([b.replace('-', ''), b[1:], b[:-1], b.replace('-', '') + '--', '--' + b[:-1]]).strip()
        if v and b not in v: hs[-1] = (hs[-1][0], v)
    return hs

EDGE = [b'', b'\r', b'\n', b'\r\n', b'\n\r', b'\r\r', b'\n\n', b'\r\n\r\n', b'-', b'--', b'---', b'-\r\n-', b'\r\n--', b'--\r\n']

def gen_body(rng, b, big=False):
    """arbitrary bytes with the interesting shapes over-represented; `b` the boundary (bytes)"""
    k = rng.below(12)
    if k == 0: body = rng.choice(EDGE)
    elif k == 1: body = rng.bytes(rng.range(1, 3))
    elif k == 2:   # text lines with assorted line ends, dashes
        body = b''.join(rng.choice([b'line', b'--', b'-', b'', b'a-b', b'x' * rng.range(0, 20)]) + rng.choice([CRLF, b'\n', b'\r', b''])
                        for _ in range(rng.range(0, 12)))
    elif k == 3:   # near misses of the boundary: prefixes, hyphen-stripped form, one byte off
        pcs = []
        for _ in range(rng.range(1, 6)):
            c = rng.below(6)
            if c == 0 and len(b) > 1: pcs.append(b[:rng.range(1, len(b) - 1)])
            elif c == 1: pcs.append(b.replace(b'-', b'') if b.replace(b'-', b'') != b else b[:-1])
            elif c == 2 and len(b) > 1: pcs.append(b[1:])
            elif c == 3: pcs.append(b'--' + b[:-1])
            elif c == 4: pcs.append(b[:-1] + bytes([(b[-1] + 1) % 128 or 65]))
            else: pcs.append(rng.bytes(rng.range(0, 8)))
            pcs.append(rng.choice([CRLF, b'\n', b'', b'-', b' ']))
        body = b''.join(pcs)
    elif k == 4: body = rng.choice(EDGE) + rng.bytes(rng.range(0, 40)) + rng.choice(EDGE)
    elif k == 5: body = bytes(rng.choice([13, 10, 45, 13, 10, 97]) for _ in range(rng.range(0, 30)))
    else: body = rng.bytes(rng.range(0, 300))
    if big:
        n = rng.choice([4095, 4096, 8192, 65535, 65536])
        body = rng.choice(EDGE) + rng.bytes(n) + rng.choice(EDGE)
        body = body[:65536]
    return body

def scrub(body, b):
    """make sure the boundary does not occur (keeps the other bytes)"""
    guard = 0
    while b in body and guard < 10000:
        i = body.find(b)
        repl = 0x40 if b[0] != 0x40 else 0x41
        body = body[:i] + bytes([repl]) + body[i + 1:]
        guard += 1
    return body

def gen_case(rng, big=False, bkind=None):
    b = gen_boundary(rng, bkind)
    bb = b.encode()
    nparts = rng.range(1, 8) if not big else rng.range(1, 2)
    ps = []
    for i in range(nparts):
        hs = gen_headers(rng, b)
        body = scrub(gen_body(rng, bb, big and i == 0), bb)
        ps.append((hs, body))
    # header lines that contain the boundary: re-draw those headers from boundary-free texts
    ps2 = []
    for hs, body in ps:
        hs2 = []
        for n, v in hs:
            if bb in (n + ': ' + v).encode():
                safe = ''.join(ch for ch in 'HdrQ' if ch not in b) or 'Z'
                n, v = safe, ''.join(ch for ch in 'wxyz' if ch not in b)
            hs2.append((n, v))
        ps2.append((hs2, body))
    return ps2, b


def browser_body(ps, b):
    """what a browser sends: --b CRLF headers CRLF CRLF body CRLF … --b-- CRLF"""
    out = b''
    for hs, body in ps:
        out += b'--' + b + CRLF
        for n, v in hs: out += n + b': ' + v + CRLF
        out += CRLF + body + CRLF
    return out + b'--' + b + b'--' + CRLF

def writer_body(ps, b):
    """the format FormMultipartData::generate writes (re-stated here, not taken from the model)"""
    out = b
    for hs, body in ps:
        out += CRLF
        for n, v in hs: out += n + b': ' + v + CRLF
        out += CRLF + body + CRLF + b
    return out


# ----------------------------------------------------------------------------- the run
def run(res, tier, seed):
    rng = C.Rng(seed)
    rx = rng.fork('gen_c16')           # the audit's classes draw from their own stream: the base sections keep theirs
    P = sys.modules[__name__]
    quick = tier == 'quick'
    lines, meta = [], []
    def add(line, kind, payload=None):
        lines.append(line); meta.append((kind, payload))

    # 0. regression witnesses of the repaired defects (must now be right on both sides)
    reg_rt = [([([('X', 'y')], b'')], '--abc'),                      # F21 empty body
              ([([('X', 'y')], b'a\n')], 'abc'),
              ([([('X', 'y')], b'hello')], '--b-1'),                 # F22a interior hyphen
              ([([('X', 'y')], b'xx b1 xx\nb1z\nmore')], '--b1'),    # F22a letters of the boundary in the body
              ([([('X-Token', 'WebKitFormBoundaryABC')], b'v')], '----WebKitFormBoundaryABC'),   # F22b
              ([([('X', 'y')], b'hello')], '---'),                   # F22b hyphen-only boundary
              ([([('X', 'y')], b'a-b-c')], 'abc')]
    for ps, b in reg_rt:
        add('mprt ' + parts_field(enc_parts(ps)) + ' ' + C.hx(b), 'rt', (ps, b, 'regression'))
    reg_err = [(b'X: abc\r\nX: y\r\n\r\nbody\r\n--abc', '--abc'),   # F22c no opening delimiter
               (b'abc\r\nX: y\r\n', 'abc'), (b'abc', 'abc'), (b'abc\r\n', 'abc'),     # F32
               (b'abc\r\nX: y\r\n\r\n', 'abc'),
               (b'abc\r\nX: y\r\n\r\nbody\r\nabc\r\nZ: w\r\n', 'abc')]
    for d, b in reg_err:
        add('mpparse ' + C.hx(d) + ' ' + C.hx(b), 'must-err', 'regression')
    add('mpboundary ' + C.hx('multipart/form-data; boundary="a b"'), 'boundary', ('a b', 'quoted'))   # F33
    deep = 20000                                                     # F34: one stack frame per part
    add('mpparse ' + C.hx(b'b' + b'\r\nX: y\r\n\r\n\r\nb' * deep) + ' ' + C.hx('b'), 'deep', deep)

    # 1. exhaustive small sub-space: every body of length 0..L over {CR, LF, '-', 'a', 'b'} x boundaries
    alpha = [13, 10, 45, 97, 98]
    L = 4 if quick else 6
    small_bs = ['ab-', '--a-b', 'zz']
    nsmall = 0
    for n in range(0, L + 1):
        for tup in itertools.product(alpha, repeat=n):
            body = bytes(tup)
            for b in small_bs:
                ps = [([('X', 'y')], body)]
                if not ok_boundary(b, ps): continue
                add('mprt ' + parts_field(enc_parts(ps)) + ' ' + C.hx(b), 'rt', (ps, b, 'small'))
                nsmall += 1

    # 1b. the same small bodies as the first, a middle and the last part of a list of three
    for ps, b, tag in X.small_positions(quick, P):
        if ok_boundary(b, ps): add('mprt ' + parts_field(enc_parts(ps)) + ' ' + C.hx(b), 'rt', (ps, b, tag))

    # 2. random round trips in the hypothesis class (generate, then parse what the implementation wrote)
    nrt = 1500 if quick else 40000
    gen_cases = []
    for i in range(nrt):
        big = (i % (150 if quick else 400) == 0)
        ps, b = gen_case(rng, big)
        gen_cases.append((ps, b, 'big' if big else 'random'))
    for bk in ['webkit', 'gecko', 'plain', 'punct', 'hyph', 'dashes', 'len1', 'len70', 'space', 'lead']:
        for _ in range(10 if quick else 200):
            ps, b = gen_case(rng, False, bk)
            gen_cases.append((ps, b, 'boundary:' + bk))
    # 2b. the shapes the base generator does not draw (look-alikes of the boundary, long lines, long / unusual header texts, …)
    gen_cases += X.rt_cases(rx.fork('rt'), quick, P)
    gen_cases += F2.rt_cases(rx.fork('rt2'), quick, P)
    for ps, b, tag in gen_cases:
        add('mpgen ' + parts_field(enc_parts(ps)) + ' ' + C.hx(b), 'gen', (ps, b, tag))

    # 3. outside the hypothesis class (differential only, and "never a panic")
    nout = 600 if quick else 15000
    badtexts = [' lead', 'trail ', '\tx', 'x\t', 'a\x00b', 'a\x7fb', ' x', 'x　', ' x ', 'x\u0085', 'a\rb', 'a\nb',
                'a\r\nb', '', ' ', ' ', 'a:b', ':', ': ', 'x ', ' x', 'x ', ' ', 'é ']
    for i in range(nout):
        ps, b = gen_case(rng)
        k = rng.below(7)
        j = rng.below(len(ps))
        hs, body = ps[j]
        if k == 0:   # the boundary occurs in a body
            pos = rng.range(0, len(body))
            body = body[:pos] + rng.choice([b'', CRLF, b'--']) + b.encode() + rng.choice([b'', CRLF, b'--', b'--\r\n']) + body[pos:]
        elif k == 1:  # the boundary occurs in a header
            hs = hs[:-1] + [(hs[-1][0], hs[-1][1] + rng.choice(['', ' ']) + b + rng.choice(['', 'x']))]
        elif k == 2:  # header texts that do not survive trimming / control filtering / the colon split
            hs = [(rng.choice(badtexts + ['N']), rng.choice(badtexts + ['v'])) for _ in range(rng.range(1, 3))]
        elif k == 3:  # no headers at all, or no parts
            if rng.chance(1, 4): ps = []
            hs = []
        elif k == 4:  # boundary with leading / trailing blanks or control characters, or empty
            b = rng.choice(['', ' ' + b, b + ' ', '\t' + b, b + '\x01', ' ' + b, b + '　', b + '\r\n', b + '\n', '\r' + b, 'a\nb'])
        elif k == 5:  # only a hyphen-stripped / shortened variant of the boundary occurs in the body
            v = b.replace('-', '') or '-'
            body = body + b'\n' + v.encode() + b'\n' + body
            body = scrub(body, b.encode())
        else:
            body = body + b.encode()[:-1]
        if ps: ps[j] = (hs, body)
        add('mprt ' + parts_field(enc_parts(ps)) + ' ' + C.hx(b), 'rt-any', (ps, b))

    # 4. malformed streams with a verdict: no opening delimiter, no closing delimiter, headerless part
    nmal = 150 if quick else 4000
    for i in range(nmal):
        ps, b = gen_case(rng)
        if not (wf_parts(ps) and ok_boundary(b, ps)): continue
        eps, bb = enc_parts(ps), b.encode()
        good = writer_body(eps, bb) if rng.chance(1, 2) else browser_body(eps, bb)
        first_nl = good.find(b'\n') + 1
        # (a) opening delimiter missing: first line removed / replaced / preceded by a line break
        junk = rng.choice([b'', CRLF, b'\n', scrub(rng.bytes(rng.range(1, 20)).replace(b'\n', b'.'), bb) + CRLF,
                           bb[:-1] + CRLF, b'--' + bb[:-1] + CRLF])
        for data in (junk + good[first_nl:], CRLF + good, b'\n' + good):
            if no_open_shape(data, bb):
                add('mpparse ' + C.hx(data) + ' ' + C.hx(b), 'must-err', 'no-open')
        # (b) closing delimiter missing: every delimiter after the opening one is dropped / mangled
        last = good.rfind(bb)
        cands = []
        if len(ps) == 1:
            cands += [good[:last], good[:last] + bb[:-1], good[:last] + bb[:-1] + CRLF, good[:last].rstrip(b'-')]
        head = good[:first_nl]
        cands.append(head + good[first_nl:].replace(bb, bb[:-1] + b'#'))
        cands.append(head + good[first_nl:].replace(bb, bb.replace(b'-', b'') if b'-' in bb else bb[1:]))
        for data in cands:
            if no_close_shape(data, bb):
                add('mpparse ' + C.hx(data) + ' ' + C.hx(b), 'must-err', 'no-close')
        # (c) a part without headers (first, middle or last part)
        j = rng.below(len(eps))
        eps2 = list(eps); eps2[j] = ([], eps2[j][1])
        bad = writer_body(eps2, bb) if rng.chance(1, 2) else browser_body(eps2, bb)
        add('mpparse ' + C.hx(bad) + ' ' + C.hx(b), 'must-err', 'headerless')

    # 4b. preamble before a complete body, the last delimiter of a several-part body missing, headerless part with a bare LF
    for data, b, label in X.malformed_cases(rx.fork('malformed'), quick, P) + F2.malformed_cases(rx.fork('malformed2'), quick, P):
        add('mpparse ' + C.hx(data) + ' ' + C.hx(b), 'must-err', label)

    # 5. every truncation of small valid bodies
    ntr = 12 if quick else 150
    for i in range(ntr):
        while True:
            ps, b = gen_case(rng, False, rng.choice(['plain', 'hyph', 'lead', 'webkit']))
            ps = [(hs[:2], body[:12]) for hs, body in ps[:3]]
            if wf_parts(ps) and ok_boundary(b, ps) and len(b) <= 30: break
        eps, bb = enc_parts(ps), b.encode()
        style = rng.below(2)
        good = writer_body(eps, bb) if style == 0 else browser_body(eps, bb)
        for k in range(len(good)):
            add('mpparse ' + C.hx(good[:k]) + ' ' + C.hx(b), 'trunc', (eps, bb, good, k))

    # 6. browser-shaped requests: Content-Type value -> boundary -> parse
    nbr = 150 if quick else 4000
    for i in range(nbr):
        ps, b = gen_case(rng, False, rng.choice(['webkit', 'gecko', 'plain', 'lead', 'hyph', 'punct', 'space']))
        if not (wf_parts(ps) and ok_boundary(b, ps)): continue
        quoted = (not all(ch in ALNUM + '-' for ch in b)) or rng.chance(1, 5)
        ct = 'multipart/form-data; boundary=' + ('"' + b + '"' if quoted else b)
        add('mpboundary ' + C.hx(ct), 'boundary', (b, 'quoted' if quoted else 'plain'))
        add('mpparse ' + C.hx(browser_body(enc_parts(ps), b.encode())) + ' ' + C.hx(b), 'browser', (ps, b))

    # 6b. every boundary LENGTH RFC 2046 allows (1..70 characters), plain and quoted: extract_boundary gives it back and the browser-shaped body parses
    for n in range(1, 71):
        for quoted in (False, True):
            b = ''.join(rng.choice(ALNUM) for _ in range(n)) if not quoted else (rng.choice(ALNUM) + ''.join(rng.choice(BCHARS_NOSPACE) for _ in range(n - 2)) + rng.choice(ALNUM))[:n]
            ps = [([('Content-Disposition', 'form-data; name="a"')], b'v')]
            if not ok_boundary(b, ps): continue
            ct = 'multipart/form-data; boundary=' + ('"' + b + '"' if quoted else b)
            add('mpboundary ' + C.hx(ct), 'boundary', (b, 'quoted' if quoted else 'plain'))
            add('mpparse ' + C.hx(browser_body(enc_parts(ps), b.encode())) + ' ' + C.hx(b), 'browser', (ps, b))
    # 6c. browser-shaped bodies on the other boundary families (hyphens only, 1 / 70 characters, self-overlapping), 2..8 parts,
    #     with and without the final line break
    for ps, b, final in X.browser_cases(rx.fork('browser'), quick, P) + F2.browser_cases(rx.fork('browser2'), quick, P):
        if not (wf_parts(ps) and ok_boundary(b, ps)): continue
        data = browser_body(enc_parts(ps), b.encode())
        add('mpparse ' + C.hx(data if final else data[:-2]) + ' ' + C.hx(b), 'browser', (ps, b))
    # 6d. Content-Type values whose boundary spells the parameter name; other spellings of the header (differential only)
    judged, free = X.content_types(rx.fork('ct'), quick, P)
    j2, f2 = F2.content_types(rx.fork('ct2'), quick, P)
    judged, free = judged + j2, free + f2
    for ct, b, tag in judged: add('mpboundary ' + C.hx(ct), 'boundary', (b, tag))
    for ct in free: add('mpboundary ' + C.hx(ct), 'ct-any', None)
    # 7. unstructured: line soups and mutations (differential only, "never a panic")
    for data, b in X.lenient_cases(rx.fork('lenient'), quick, P) + F2.free_cases(rx.fork('free2'), quick, P):
        add('mpparse ' + C.hx(data) + ' ' + C.hx(b), 'soup', None)
    nsoup = 1200 if quick else 40000
    for i in range(nsoup):
        b = gen_boundary(rng, rng.choice(['plain', 'hyph', 'lead', 'dashes', 'len1'])) if rng.chance(9, 10) else ''
        bb = b.encode()
        atoms = [bb, b'--' + bb, b'--' + bb + b'--', bb.replace(b'-', b''), bb[:-1], b'', b'', b'X: y', b'Content-Disposition: form-data; name="a"',
                 b'nocolon', b': ', b':', b'a:b', b' ', b'\t', b'\xc2\xa0', b'\xe2\x80\x83', b'\xe3\x80\x80', b'\x00', b'\x7f\x01', b'\xff', b'\xc3',
                 b'\xe2\x80', b'\xed\xa0\x80', b'\xf4\x90\x80\x80', b'\xc0\xaf', 'é: 値'.encode(), b'body', b'-', b'--', b'\r', b'a\rb']
        ends = [CRLF, CRLF, CRLF, b'\n', b'\r', b'']
        data = b''.join(rng.choice(atoms) + rng.choice(ends) for _ in range(rng.range(0, 10)))
        if rng.chance(1, 3):
            ps, _ = gen_case(rng)
            good = writer_body(enc_parts(ps[:3]), bb)
            m = rng.below(4)
            if len(good) > 1:
                p = rng.below(len(good))
                if m == 0: good = good[:p] + good[p + 1:]
                elif m == 1: good = good[:p] + bytes([rng.below(256)]) + good[p + 1:]
                elif m == 2: good = good[:p] + rng.choice(atoms) + rng.choice(ends) + good[p:]
                else: good = good[:p] + good[p + rng.range(1, 30):]
            data = good
        add('mpparse ' + C.hx(data) + ' ' + C.hx(b), 'soup', None)
    # non-UTF-8 boundary / header text arguments, Content-Type values, get_header
    for raw in [b'\xff', b'\xc3', b'a\xe2\x80', b'\xed\xa0\x80', b'\xf4\x90\x80\x80', b'\xc0\xaf', b'\xf0\x8f\xbf\xbf', b'\xe0\x9f\xbf',
                b'\xf4\x8f\xbf\xbf', b'\xf0\x90\x80\x80', b'\xe0\xa0\x80', b'\xed\x9f\xbf', b'\xee\x80\x80', b'\xdf\xbf', b'\xc2\x80', b'\xf5\x80\x80\x80']:
        add('mpparse ' + C.hx(b'x') + ' ' + C.hx(raw), 'arg', None)
        add('mpgen ' + C.hx(raw) + ':' + C.hx(b'v') + ';- ' + C.hx(b'b'), 'arg', None)
        add('mpboundary ' + C.hx(b'multipart/form-data; boundary=' + raw), 'arg', None)
        add('mpparse ' + C.hx(b'b\r\n' + raw + b': v\r\n\r\nx\r\nb') + ' ' + C.hx(b'b'), 'soup', None)
    cts = ['multipart/form-data', 'multipart/form-data; boundary=', 'multipart/form-data; boundary=""', 'multipart/form-data; boundary="',
           'multipart/form-data; boundary="a', 'multipart/form-data; boundary=a"', 'boundary=boundary=x', 'multipart/form-data; Boundary=x',
           'multipart/form-data;boundary=abc; charset=utf-8', 'boundar=x', '', 'boundary', 'multipart/form-data; boundary="a"b"',
           'multipart/form-data; boundary=""x""', 'multipart/form-data; boundary=é"']
    for ct in cts:
        add('mpboundary ' + C.hx(ct), 'ct-any', None)
    for i in range(100 if quick else 2000):
        ct = ''.join(rng.choice(['boundary=', 'boundary', '=', '"', 'a', '-', ' ', ';', 'multipart/form-data', 'é']) for _ in range(rng.range(0, 8)))
        add('mpboundary ' + C.hx(ct), 'ct-any', None)
    for i in range(60 if quick else 1000):
        ps = [([(rng.choice(['Content-Disposition', 'content-disposition', 'CONTENT-TYPE', 'Content-Type', 'X', 'x', 'Xy']), rng.choice(['1', '2', '']))
                for _ in range(rng.range(0, 4))], b'') for _ in range(rng.range(0, 3))]
        name = rng.choice(['content-disposition', 'Content-Type', 'X', 'xY', '', 'é', 'K'])
        want = [next((v for n, v in hs if n.lower() == name.lower()), None) for hs, _ in ps]
        add('mpgethdr ' + parts_field(enc_parts(ps)) + ' ' + C.hx(name), 'gethdr', (ps, name, want))

    impl, model = C.run_both(lines)
    res.rule = ('round trips: every body of length 0..%d over {CR, LF, -, a, b} x 3 boundaries (%d), %d structure-aware random cases in the '
                'hypothesis class (1..8 parts, 1..4 headers incl. non-ASCII and empty values, bodies with CR/LF/CRLF/dashes/near misses of the '
                'boundary at either end, lengths 0..3, up to 64 KiB; 12 boundary families of 1..70 RFC 2046 characters) through mpgen + mpparse of '
                'what the implementation wrote, %d cases outside the class (differential only); malformed streams with a verdict: no opening '
                'delimiter, no closing delimiter, headerless part, every truncation of %d small valid bodies; browser-shaped requests through '
                'extract_boundary; line soups / single mutations; a case is non-trivial when it has at least one part or a non-empty body; '
                'distinct = distinct protocol lines' % (L, nsmall, len(gen_cases), nout, ntr))
    res.exhaustive = 'all part bodies of length 0..%d over the alphabet {CR, LF, "-", "a", "b"} x boundaries "ab-", "--a-b", "zz" (those not containing the boundary)' % L
    C.compare(res, lines, impl, model, 'Multipart', nontrivial=lambda ln, a: ' - ' not in ln + ' ')

    rt_lines, rt_meta = [], []
    for ln, (kind, pl), a in zip(lines, meta, impl):
        short = ln if len(ln) < 400 else ln[:400] + '…'
        if is_bad(a):
            res.fail('panic:' + a.split(' ', 1)[1], ln, a, None, 'a multipart entry point panicked')
            continue
        if kind == 'rt':
            ps, b, tag = pl
            res.count('roundtrip ' + tag)
            if wf_parts(ps) and ok_boundary(b, ps):
                want = 'ok ' + parts_field(enc_parts(ps))
                if a != want:
                    res.fail('roundtrip', ln, a[:200], None, 'parse(generate(ps, b), b) != ps for well-formed ps and a boundary that does not occur in the data')
        elif kind == 'gen':
            ps, b, tag = pl
            inhyp = wf_parts(ps) and ok_boundary(b, ps)
            res.count('generate ' + tag + ('' if inhyp else ' (outside hypothesis)'))
            if not a.startswith('ok '):
                if inhyp: res.fail('generate-err', short, a, None, 'generate failed on a non-empty list of parts with headers')
                continue
            data = C.unhx(a[3:])
            if inhyp:
                sp = strict_split(data, b.encode())
                if sp != enc_parts(ps):
                    res.fail('generate-format', short, a[:120], None, 'the generated body does not split (own splitter) into the given parts')
            rt_lines.append('mpparse ' + a[3:] + ' ' + C.hx(b)); rt_meta.append((ps, b, tag, inhyp))
        elif kind == 'must-err':
            res.count('malformed ' + pl)
            if a != 'err':
                res.fail('accepts-' + pl, short, a[:200], None, 'a body of the malformed shape "%s" was not rejected' % pl)
        elif kind == 'trunc':
            eps, bb, good, k = pl
            offs, i = [], good.find(bb)
            while i >= 0:
                offs.append(i); i = good.find(bb, i + 1)
            j = max([n for n, o in enumerate(offs) if o + len(bb) <= k], default=-1)
            tail = good[offs[j] + len(bb):k] if j >= 0 else None
            complete = j >= 1 and tail in (b'', b'\r', CRLF, b'--', b'--\r', b'--\r\n', b'-')
            res.count('truncation ' + ('complete body' if complete else 'cut'))
            want = ('ok ' + parts_field(eps[:j])) if complete else 'err'
            if a != want:
                res.fail('truncation', short, a[:200], None, 'valid body cut at byte %d: expected %s' % (k, want[:80]))
        elif kind == 'boundary':
            b, tag = pl
            res.count('content-type ' + tag)
            if a != 'ok ' + C.hx(b):
                res.fail('extract-boundary', ln, a, None, 'extract_boundary did not return the boundary parameter %r' % b)
        elif kind == 'browser':
            ps, b = pl
            res.count('browser-shaped body')
            if a != 'ok ' + parts_field(enc_parts(ps)):
                res.fail('browser-body', short, a[:200], None, 'a browser-shaped body (--b … --b--) did not give its parts')
        elif kind == 'deep':
            res.count('many parts (%d)' % pl)
            if a != 'ok ' + '|'.join(['58:79;-'] * pl):
                res.fail('many-parts', ln[:120] + '…', a[:120], None, 'a body of %d empty parts did not give %d parts' % (pl, pl))
        elif kind == 'gethdr':
            ps, name, want = pl
            res.count('get_header')
            if all(ord(ch) < 128 for ch in name):
                w = 'ok ' + ('|'.join('none' if x is None else C.hx(x) for x in want) if ps else '-')
                if a != w: res.fail('get-header', ln, a, None, 'expected ' + w)
        else:
            res.count(kind)
    i2, m2 = C.run_both(rt_lines)
    C.compare(res, rt_lines, i2, m2, 'Multipart')
    for ln, (ps, b, tag, inhyp), a in zip(rt_lines, rt_meta, i2):
        short = ln if len(ln) < 400 else ln[:400] + '…'
        res.count('roundtrip ' + tag + ('' if inhyp else ' (outside hypothesis)'))
        for _, body in ps:
            res.count('body ' + ('empty' if not body else 'len %d' % len(body) if len(body) <= 3 else
                                 'ends CRLF' if body.endswith(CRLF) else 'ends LF' if body.endswith(b'\n') else
                                 'ends CR' if body.endswith(b'\r') else 'starts with a line break' if body[:1] in (b'\r', b'\n') else
                                 '>= 4 KiB' if len(body) >= 4096 else 'other'))
        if is_bad(a):
            res.fail('panic:' + a.split(' ', 1)[1], short, a, None, 'parse panicked'); continue
        if inhyp and a != 'ok ' + parts_field(enc_parts(ps)):
            res.fail('roundtrip', short, a[:200], None, 'parse(generate(ps, b), b) != ps for well-formed ps and a boundary that does not occur in the data')
    nhist = F2.history_part(res, rx.fork('history'), tier, P)
    necho = X.echo_part(res, rx.fork('echo'), tier, P)
    res.rule += ('; audit classes (vlib/gen_c16.py): small bodies in each position of a 3-part list, look-alikes of the boundary, long lines, '
                 'long / unusual header texts, repeated header names, preamble / last-delimiter-missing / LF-headerless bodies, browser-shaped bodies '
                 'on all boundary families, boundaries that spell `boundary=`, lenient spellings (differential), %d echo requests through four entry points; '
                 'second audit (props/c16_features.py): the delimiter across power-of-two offsets, line lengths around them, multi-byte texts in every alignment, '
                 'part-level Content-Length / transfer encodings / nested multipart types / charsets and byte order marks, values a decoder would touch, '
                 '8 parts x 64 KiB, real clients\' boundaries, %d calls in sequences with related boundaries and bodies in one process' % (necho, nhist))
    k = next(i for i, m in enumerate(meta) if m[0] == 'gen')
    res.sample({'op': lines[k][:160], 'implementation': impl[k][:120], 'model': model[k][:120]})
    k = next(i for i, m in enumerate(meta) if m[0] == 'trunc' and m[1][3] > 20)
    res.sample({'op': lines[k][:160], 'implementation': impl[k], 'model': model[k]})
    k = next(i for i, m in enumerate(meta) if m[0] == 'must-err' and m[1] == 'headerless')
    res.sample({'op': lines[k][:160], 'implementation': impl[k], 'model': model[k]})
    if rt_lines:
        res.sample({'op': rt_lines[0][:160], 'implementation': i2[0][:120], 'model': m2[0][:120]})
