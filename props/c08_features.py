"""C08, second generator audit: probes that need an instance of their own or another observation point than `one answer per connection`.

    snapshot / tree_changes   files NEXT to the served ones: what the server itself wrote into the served directory while answering
                              is asked for on the instance that wrote it and on a fresh instance - the answers must be the same
    persistent                the SECOND answer on a connection: a request, its answer read by Content-Length, a second request on the same
                              connection.  This server closes after one answer (nothing to judge); a server that keeps the connection
                              open must give the second request the answer it gets alone
    cold_start                an instance whose FIRST traffic is concurrent (nothing was served one at a time before): whatever is set up on
                              first use is set up by several workers at once; then a large file NOBODY has asked for so far (with an outdated
                              side file next to it) on 48 connections at once, then alone
    churn                     the FILES change between two answers (grown, shrunk, replaced, edited in place, deleted, created, emptied,
                              link re-pointed, index page appears / disappears, file becomes a directory, side file appears / disappears /
                              goes out of date, the not-found page changes): the instance that served the old state must answer like a
                              fresh instance - `the response depends only on the request, the files on disk and the configuration`
"""
import os, re, socket, time, shutil, tempfile, threading
from vlib import common as C
from vlib import realbin as R
from vlib import gen_c08 as G

def _m():
    from props import c08 as M
    return M

# ----------------------------------------------------------------------------- files next to the served ones
def snapshot(root):
    snap = {}
    for d, dirs, names in os.walk(root, followlinks=False):
        for n in names + dirs:
            p = os.path.join(d, n)
            try: st = os.lstat(p)
            except OSError: continue
            snap[os.path.relpath(p, root)] = (st.st_mode, st.st_size if not os.path.isdir(p) or os.path.islink(p) else 0, st.st_mtime_ns if not os.path.isdir(p) else 0)
    return snap

def tree_changes(res, pr, srv, docroot, snap, N, label='', env=None):
    """compares the served directory with its snapshot; returns the new snapshot.  A server that writes next to the files it serves has
    made its later answers depend on its earlier ones unless a fresh instance, looking at the same directory, answers the same"""
    M = _m()
    now = snapshot(docroot)
    if now == snap: return snap
    new = sorted(p for p in now if p not in snap)
    gone = sorted(p for p in snap if p not in now)
    changed = sorted(p for p in now if p in snap and now[p] != snap[p])
    res.count('served directory changed while the server ran (paths)', len(new) + len(gone) + len(changed))
    res.notes.append('the served directory CHANGED while the server answered requests%s: new %r, removed %r, changed %r' % (label, new[:6], gone[:6], changed[:6]))
    ask = []
    for p in (new + changed + gone)[:12]:
        url = '/' + p.replace(os.sep, '/')
        stem = re.sub(r'\.(gz|br|zst|tmp|part|lock|etag|md5|cache|meta)$', '', url)
        for t in dict.fromkeys([url, stem]):
            ask.append(dict(kind='file-written-by-the-server', raw=G.req('GET', t, [('Host', 'localhost')]), form=False))
            ask.append(dict(kind='file-written-by-the-server', raw=G.req('GET', t, [('Host', 'localhost'), ('Accept-Encoding', 'gzip, br')]), form=False))
    try:
        live = pr.serial(srv, ask)
        with R.Server(docroot, threads=2, capture_stdout=False, env=env) as fresh:
            alone = pr.serial(fresh, ask)
    except Exception as e:      # noqa
        res.notes.append('tree_changes: could not compare (%r)' % (e,)); return now
    for r, a, b in zip(ask, live, alone):
        res.evaluations += 1
        if M.canon(a) != M.canon(b):
            res.fail('history-dependence', pr.case(r, N, dict(phase='a file the server wrote next to the served ones', new=new[:6], changed=changed[:6], removed=gone[:6])),
                     C.hx(M.canon(a)[:3000]), C.hx(M.canon(b)[:3000]),
                     f'the server changed the served directory while it answered requests{label} (new {new[:3]}, changed {changed[:3]}, removed {gone[:3]}); for this request the instance '
                     'that did so answers differently from a fresh instance that looks at the same directory: the response depends on earlier requests')
            break
    return snapshot(docroot)

# ----------------------------------------------------------------------------- the second answer on a connection
def _with_header(raw, line):
    k = raw.find(b'\r\n')
    return raw if k < 0 else raw[:k + 2] + line + b'\r\n' + raw[k + 2:]

def persistent(res, pr, rng, srv, reqs, expected, N, label=''):
    M = _m()
    ok200 = lambda i: expected[i][9:12] == b'200' and not reqs[i]['raw'].startswith((b'HEAD', b'OPTIONS'))
    keep = [i for i, r in enumerate(reqs) if re.search(rb'(?i)\r\nconnection: *keep-alive\r\n', r['raw']) and ok200(i) and r['kind'] != 'feat-pipeline']
    long_ = [i for i, r in enumerate(reqs) if r['form'] and 1200 < len(r['raw']) < G.ALLOC - 40 and ok200(i) and G.TOKEN.search(r['raw'].lower())]
    short = [i for i, r in enumerate(reqs) if r['kind'] in ('short-form-post', 'short-multipart-post', 'form-urlencoded-one', 'form-multipart-one') and ok200(i)]
    files = [i for i, r in enumerate(reqs) if r['kind'] in ('get-file', 'feat-plain') and ok200(i) and len(expected[i]) < 20000]
    if not short or not files: return
    rng.shuffle(keep); rng.shuffle(long_)
    pairs = []
    for i in keep[:2]: pairs.append((reqs[i]['raw'], rng.choice(short + files)))
    for i in long_[:3]: pairs.append((_with_header(reqs[i]['raw'], b'Connection: keep-alive'), rng.choice(short)))
    for i in long_[3:4]: pairs.append((reqs[i]['raw'], rng.choice(short)))
    pairs.append((reqs[rng.choice(files)]['raw'], rng.choice(files)))
    # after an ERROR answer: a missing file, a request that cannot be parsed, a range that cannot be satisfied - each asked to keep the connection
    H = [('Host', 'localhost'), ('Connection', 'keep-alive')]
    errs = [G.req('GET', '/missing-on-a-kept-connection.txt', H), b'BREW /pot HTTP/1.1\r\nConnection: keep-alive\r\n\r\n', G.req('GET', '/a/data.txt', H + [('Range', 'bytes=9999999-')]),
            G.req('HEAD', '/a/data.txt', H), G.req('POST', '/form-url-encoded-enctype-post-method', H + [('Content-Type', 'application/x-www-form-urlencoded')], b'k=\xff\xfe')]
    rng.shuffle(errs)
    for e in errs[:2 if pr.tier == 'quick' else 5]: pairs.append((e, rng.choice(short + files)))
    for first, j in pairs:
        r2 = reqs[j]
        res.evaluations += 1
        a2 = b''
        s = socket.socket(socket.AF_INET, socket.SOCK_STREAM)
        try:
            s.settimeout(10)
            s.connect(('127.0.0.1', srv.port))
            s.setsockopt(socket.IPPROTO_TCP, socket.TCP_NODELAY, 1)
            s.sendall(first)
            a1, ended = G.read_one_answer(s, 10, no_body=first.startswith(b'HEAD'))
            if not a1:
                res.count('second request on a connection: the first was not answered'); continue
            try:
                s.sendall(r2['raw'])
                try: s.shutdown(socket.SHUT_WR)
                except OSError: pass
                s.settimeout(5)
                while True:
                    b = s.recv(1 << 16)
                    if not b: break
                    a2 += b
            except OSError:
                pass
        except OSError:
            continue
        finally:
            s.close()
        if not a2:
            res.count('second request on a connection: connection closed after the first answer (nothing to judge)'); continue
        res.count('second request on a connection: ANSWERED')
        c = M.canon(a2, r2['form'])
        case = pr.case(r2, N, dict(phase='second request on one connection', first_request=first[:200].decode('latin1')))
        if c != expected[j]:
            res.fail('history-dependence', case, C.hx(c[:3000]), C.hx(expected[j][:3000]),
                     f'sent as the SECOND request on a connection ({N} workers{label}; the first one and its answer came before) the request got a different response than alone: '
                     'the response depends on the earlier request of the connection. ' + M.who_else(c, expected, reqs, j))
            break
        foreign = G.foreign_tokens(r2['raw'], a2)
        if foreign:
            res.fail('cross-talk', case, C.hx(a2[:3000]), None, f'the second answer on a connection contains {sorted(foreign)[:3]!r}: client data of another request'); break

# ----------------------------------------------------------------------------- the first traffic of an instance is concurrent
def _listening(port):
    want = '0100007F:%04X' % port
    try:
        with open('/proc/net/tcp') as fh:
            for line in fh:
                f = line.split()
                if len(f) > 3 and f[1] == want and f[3] == '0A': return True
    except OSError:
        return None
    return False

FROZEN_MAX = 96          # connections a stopped process can have waiting: below the listen backlog of 128 that std::net::TcpListener asks for

def frozen_round(srv, raws, timeout=20):
    """the greatest overlap a client can arrange: the server process is STOPPED, every request gets a connection of its own and is sent (the
    kernel completes the handshakes and keeps the bytes), then the process continues: it finds all connections waiting, every request
    already readable - the workers run through them side by side, microseconds apart.  Answers in the order of `raws`"""
    import signal
    socks, out = [], [None] * len(raws)
    stopped = True
    os.kill(srv.pid, signal.SIGSTOP)
    try:
        for k, raw in enumerate(raws):
            if stopped and k >= FROZEN_MAX:                 # the listen queue of the stopped process holds no more: the rest arrives right after it continues
                os.kill(srv.pid, signal.SIGCONT); stopped = False
            s = socket.socket(socket.AF_INET, socket.SOCK_STREAM)
            try:
                s.settimeout(3 if stopped else timeout)
                s.connect(('127.0.0.1', srv.port))
                s.settimeout(timeout)
                s.sendall(raw)
                try: s.shutdown(socket.SHUT_WR)
                except OSError: pass
                socks.append(s)
            except OSError as e:
                s.close()
                if stopped:                                 # the queue is full earlier than expected: continue the process and try this one again
                    os.kill(srv.pid, signal.SIGCONT); stopped = False
                    try:
                        s = socket.create_connection(('127.0.0.1', srv.port), timeout=timeout)
                        s.sendall(raw)
                        try: s.shutdown(socket.SHUT_WR)
                        except OSError: pass
                        socks.append(s); continue
                    except OSError as e2:
                        e = e2
                out[k] = e; socks.append(None)
    finally:
        os.kill(srv.pid, signal.SIGCONT)
    def rd(k):
        s = socks[k]
        if s is None: return
        buf = []
        try:
            while True:
                try: b = s.recv(1 << 16)
                except ConnectionResetError:
                    if buf: break
                    raise
                if not b: break
                buf.append(b)
            out[k] = b''.join(buf)
        except Exception as e:      # noqa
            out[k] = e
        finally:
            s.close()
    ts = [threading.Thread(target=rd, args=(k,), daemon=True) for k in range(len(raws))]
    for t in ts: t.start()
    for t in ts: t.join()
    return out

class ColdServer(R.Server):
    """realbin.Server learns that the instance is up from a connection without a request - which the instance ANSWERS (400): whatever is set
    up on first use has been set up by then, by one worker.  This one looks the listening socket up in /proc/net/tcp instead: the first
    connection the instance ever sees is the probe's"""
    def start(self):
        import subprocess
        if _listening(1) is None: return R.Server.start(self)          # no /proc: the ordinary way
        self._own_logdir = tempfile.mkdtemp(prefix='rws-log-'); self.logdir = self._own_logdir
        last = None
        for attempt in range(5):
            self.port = R.free_port()
            argv = [R.BIN, '--ip=127.0.0.1', f'--port={self.port}', f'--thread-count={self.threads}'] + self.args
            e = {k: v for k, v in os.environ.items() if not k.startswith('RWS_CONFIG_')}
            e.update(self.extra_env)
            self.stdout_path = os.path.join(self.logdir, f'stdout-{self.port}.log'); self.stderr_path = os.path.join(self.logdir, f'stderr-{self.port}.log')
            so, se = open(os.devnull, 'wb'), open(self.stderr_path, 'wb')
            self.proc = subprocess.Popen(argv, cwd=self.docroot, env=e, stdin=subprocess.DEVNULL, stdout=so, stderr=se, start_new_session=True)
            so.close(); se.close()
            self.argv = argv
            t0 = time.time()
            while time.time() - t0 < self.start_timeout:
                if self.proc.poll() is not None:
                    last = 'exited at start-up: ' + self.stderr()[-300:]; break
                if _listening(self.port):
                    time.sleep(0.02)           # the workers are spawned right after the bind
                    self.status = None
                    return self
                time.sleep(0.005)
            else:
                last = 'did not listen in time'
            self._kill()
        raise R.ServerError(f'could not start {R.BIN}: {last}')

def cold_start(res, pr, rng, docroot, reqs, reference, N, cold, label='', env=None, tree=None, tree_key='a'):
    M = _m()
    quick = pr.tier == 'quick'
    # one member of every kind first (what is set up on first use differs by kind), then drawn
    by = {}
    for i, r in enumerate(reqs): by.setdefault(r['kind'], []).append(i)
    first = [rng.choice(v) for k, v in sorted(by.items())]
    rng.shuffle(first)
    m = 64 if quick else 192
    idx = first[:m]
    while len(idx) < m: idx.append(rng.below(len(reqs)))
    rng.shuffle(idx)
    # the first connections of the queue meet whatever is set up on first use half done: requests whose answer depends on the configuration
    # (an Origin, a preflight) go there
    idx.sort(key=lambda i: 0 if re.search(rb'(?i)\r\norigin:', reqs[i]['raw']) else 1)
    done = 0
    with ColdServer(docroot, threads=N, capture_stdout=False, env=env) as srv:
        got = frozen_round(srv, [reqs[i]['raw'] for i in idx])
        for i, g in zip(idx, got):
            r = reqs[i]
            res.evaluations += 1; res.programs += 1; done += 1
            res.count('cold start: first traffic of a fresh instance is concurrent')
            c = M.canon(g, r['form'])
            if c == reference[i]:
                M.check_tokens(res, pr, r, g, N, 'first traffic of a fresh instance')
                continue
            sig = 'no-response-under-concurrency' if (isinstance(g, Exception) or not g) else 'cross-talk'
            res.fail(sig, pr.case(r, N, dict(shape='cold start', conns=len(idx), error=repr(g)[:200] if isinstance(g, Exception) else None)), C.hx(c[:6000]), C.hx(reference[i][:6000]),
                     f'as part of the FIRST traffic of a fresh instance ({len(idx)} simultaneous connections, {N} workers{label}; nothing had been served before) the response differs from '
                     'the response to the same request served alone. ' + M.who_else(c, reference, reqs, i))
            if len(res.failures) > 50: break
        # a large file nobody has asked for so far, on every connection at once; then alone
        if cold is not None and srv.alive():
            url, content = cold
            hs = [('Host', 'localhost')] + rng.choice([[('Accept-Encoding', 'gzip')], [('Accept-Encoding', 'gzip, br')], [], [('Range', 'bytes=0-99,140000-')], [('If-Modified-Since', G.http_date(G.T0))]])
            raw = G.req('GET', url, hs)
            r = dict(kind='cold-file', raw=raw, form=False)
            k = 48 if quick else 96
            got = frozen_round(srv, [raw] * k)
            try: alone = srv.request(raw, timeout=20)
            except Exception as e: alone = e      # noqa
            exp = M.canon(alone)
            res.count('cold start: a file nobody asked for before, on %d connections at once' % k)
            for g in got:
                res.evaluations += 1; res.programs += 1; done += 1
                c = M.canon(g)
                if c != exp:
                    res.fail('cross-talk' if not isinstance(g, Exception) and g else 'no-response-under-concurrency', pr.case(r, N, dict(shape='cold file', conns=k)), C.hx(c[:6000]), C.hx(exp[:6000]),
                             f'{k} simultaneous connections ask for a file that nobody has asked for before ({N} workers{label}): the response differs from the response the same instance '
                             'gives to the same request alone afterwards. ' + M.who_else(c, [exp], [r], 0))
                    break
            if not isinstance(alone, Exception) and M.status_of(alone) == 200 and b'content-encoding' not in alone[:alone.find(b'\r\n\r\n') + 4].lower() and len(hs) == 1:
                res.evaluations += 1
                if M.body_of(alone) != content:
                    res.fail('serial-body-is-not-the-file', pr.case(r, N, dict(phase='alone, after the cold burst')), C.hx(alone[:2000]), C.hx(content[:2000]),
                             f'GET {url} served alone (after {k} simultaneous requests for it) returned a body that is not the content of that file')
        alive = srv.alive()
        if alive and tree is not None: tree[tree_key] = tree_changes(res, pr, srv, docroot, tree[tree_key], N, label, env)
    if not alive:
        res.fail('server-terminated', dict(phase='cold start', workers=N, status=srv.status), (srv.stderr() or '')[-600:], None,
                 f'the server process ({N} workers{label}) terminated when its first traffic was concurrent: {srv.status}')
    return done

# ----------------------------------------------------------------------------- the files change between two answers
class _Tree:
    def __init__(self, root): self.root, self.state = root, {}
    def path(self, rel): return os.path.join(self.root, rel)
    def put(self, rel, content, age, atomic=False):
        p = self.path(rel)
        os.makedirs(os.path.dirname(p), exist_ok=True)
        if atomic:
            tmp = p + '.tmp-new'
            with open(tmp, 'wb') as fh: fh.write(content)
            os.utime(tmp, ns=(age * 10 ** 9, age * 10 ** 9))
            os.replace(tmp, p)
        else:
            with open(p, 'r+b' if os.path.isfile(p) and not os.path.islink(p) else 'wb') as fh:      # the same inode when the file exists
                fh.seek(0); fh.write(content); fh.truncate()
            os.utime(p, ns=(age * 10 ** 9, age * 10 ** 9))
        self.state['/' + rel] = content
    def rm(self, rel):
        p = self.path(rel)
        if os.path.isdir(p) and not os.path.islink(p): shutil.rmtree(p)
        else: os.remove(p)
        for k in [k for k in self.state if k == '/' + rel or k.startswith('/' + rel + '/')]: del self.state[k]
    def link(self, target, rel):
        p = self.path(rel)
        if os.path.lexists(p): os.remove(p)
        os.symlink(target, p)

def churn(res, pr, rng, N, env=None):
    M = _m()
    quick = pr.tier == 'quick'
    root = tempfile.mkdtemp(prefix='rws-c08c-')
    T1, T2 = G.T0, G.T0 + 10
    fc = lambda i, n, binary=False: R.file_content(700 + i, n, binary=binary)
    t = _Tree(root)
    try:
        # ---- the old state
        t.put('c/grow.txt', fc(1, 1000), T1); t.put('c/shrink.txt', fc(2, 5000), T1); t.put('c/swap.html', fc(3, 800), T1); t.put('c/edit.bin', fc(4, 200000, True), T1)
        t.put('c/gone.txt', fc(5, 300), T1); t.put('c/fill.txt', b'', T1); t.put('c/drain.txt', fc(6, 300), T1); t.put('c/touch.txt', fc(7, 300), T1); t.put('c/mv.txt', fc(8, 300), T1)
        t.link('grow.txt', 'c/lnk.txt')
        t.put('c/nd/other.txt', fc(9, 50), T1); t.put('c/wd/index.html', b'<p>index of wd, old</p>', T1); t.put('c/wd/keep.txt', fc(10, 50), T1)
        t.put('c/p.html', b'<p>page p, old</p>', T1); t.put('c/t', fc(11, 120), T1); t.put('c/u/index.html', b'<p>index of u, old</p>', T1)
        t.put('c/z.css', fc(12, 900), T1); t.put('c/w.js', fc(13, 900), T1); t.put('c/w.js.gz', G.gz(fc(13, 900)), T1 + 1); t.put('c/v.js', fc(14, 900), T1); t.put('c/v.js.gz', G.gz(fc(14, 900)), T1 + 1)
        t.put('c/same/data.txt', fc(15, 640), T1); t.put('c/other/data.txt', fc(16, 640), T1)
        t.put('404.html', b'<p>not found, old page</p>', T1); t.put('style.css', b'body { color: red } /* old */', T1); t.put('script.js', b'console.log("old")', T1)
        names = ['c/grow.txt', 'c/shrink.txt', 'c/swap.html', 'c/edit.bin', 'c/gone.txt', 'c/new.txt', 'c/fill.txt', 'c/drain.txt', 'c/touch.txt', 'c/mv.txt', 'c/mv2.txt', 'c/lnk.txt', 'c/nd', 'c/nd/', 'c/wd', 'c/wd/',
                 'c/wd/index.html', 'c/nd/index.html', 'c/p', 'c/p.html', 'c/q', 'c/q.html', 'c/t', 'c/t/', 'c/t/index.html', 'c/u', 'c/u/', 'c/z.css', 'c/z.css.gz', 'c/w.js', 'c/w.js.gz', 'c/v.js', 'c/v.js.gz',
                 'c/same/data.txt', 'c/other/data.txt', 'c/swap', '', 'index.html', 'index', '404.html', 'style.css', 'script.js', 'favicon.svg', 'c/missing.txt', 'c/', 'c']
        H = [('Host', 'localhost')]
        Q = []
        for n in names:
            u = '/' + n
            variants = [('GET', []), ('GET', [('Range', 'bytes=0-49')]), ('GET', [('Range', 'bytes=-10')]), ('HEAD', []), ('GET', [('Accept-Encoding', 'gzip')]),
                        ('GET', [('If-Modified-Since', G.http_date(T1))]), ('GET', [('If-None-Match', '"%x-%x"' % (T1, 300))]), ('GET', [('Range', 'bytes=100000-100099')]), ('GET', [('Connection', 'keep-alive')])]
            # quick tier: the plain request always; the variant that goes with the kind of change always; the others drawn
            goes_with = {'Accept-Encoding': ('c/z.css', 'c/w.js', 'c/v.js', 'c/swap.html'), 'If-Modified-Since': ('c/touch.txt', 'c/grow.txt', 'c/swap.html', 'c/new.txt', 'c/lnk.txt', 'c/wd/'),
                         'If-None-Match': ('c/touch.txt', 'c/drain.txt', 'c/same/data.txt'), 'Range': ('c/grow.txt', 'c/shrink.txt', 'c/edit.bin', 'c/lnk.txt', 'c/fill.txt', 'c/u'),
                         'Connection': ('c/gone.txt',)}
            if quick: variants = variants[:1] + [v for v in variants[1:] if rng.chance(1, 5) or (v[1] and n in goes_with.get(v[1][0][0], ())) or (v[0] == 'HEAD' and n in ('c/grow.txt', 'c/gone.txt', 'c/new.txt', 'c/t'))]
            for m_, hs in variants:
                Q.append(dict(kind='churn', raw=G.req(m_, u, H + hs), form=False, path=u, plain=(m_ == 'GET' and not hs)))
        def ask_all(srv, times):
            raws = [q['raw'] for q in Q] * times
            order = list(range(len(raws))); rng.shuffle(order)
            got = R.run_concurrent(srv, [raws[i] for i in order], conns=16, timeout=20)
            out = [[] for _ in Q]
            for k, i in enumerate(order): out[i % len(Q)].append(got[k])
            return out
        with R.Server(root, threads=N, capture_stdout=False, env=env) as old:
            pre = pr.serial(old, Q)
            pre_c = ask_all(old, 2)              # every worker has seen the old state
            for q, a, more in zip(Q, pre, pre_c):
                for b in more:
                    res.evaluations += 1
                    if M.canon(b) != M.canon(a):
                        res.fail('cross-talk', pr.case(q, N, dict(shape='churn, before the change')), C.hx(M.canon(b)[:3000]), C.hx(M.canon(a)[:3000]),
                                 f'({N} workers) the response under concurrency differs from the response to the same request served alone'); break
            # ---- the change (nothing is in flight)
            t.put('c/grow.txt', fc(1, 5000), T2); t.put('c/shrink.txt', fc(2, 100), T2); t.put('c/swap.html', fc(33, 800), T2, atomic=True)
            e = bytearray(fc(4, 200000, True)); e[100000:100100] = b'\xee' * 100; t.put('c/edit.bin', bytes(e), T2)
            t.rm('c/gone.txt'); t.put('c/new.txt', fc(17, 300), T2); t.put('c/fill.txt', fc(18, 300), T2); t.put('c/drain.txt', b'', T2)
            os.utime(t.path('c/touch.txt'), ns=(T2 * 10 ** 9, T2 * 10 ** 9))
            os.rename(t.path('c/mv.txt'), t.path('c/mv2.txt')); t.state['/c/mv2.txt'] = t.state.pop('/c/mv.txt')
            t.link('shrink.txt', 'c/lnk.txt')
            t.put('c/nd/index.html', b'<p>index of nd, NEW</p>', T2); t.rm('c/wd/index.html')
            t.rm('c/p.html'); t.put('c/q.html', b'<p>page q, NEW</p>', T2)
            t.rm('c/t'); t.put('c/t/index.html', b'<p>t is a directory now</p>', T2); t.rm('c/u'); t.put('c/u', fc(19, 77), T2)
            t.put('c/z.css.gz', G.gz(fc(12, 900)), T2); t.rm('c/w.js.gz'); t.put('c/v.js', fc(34, 900), T2)
            t.put('c/same/data.txt', fc(16, 640), T2); t.put('c/other/data.txt', fc(15, 640), T2)          # the two swap their contents
            t.put('404.html', b'<p>not found, NEW page</p>', T2); t.put('index.html', b'<p>an index page appeared</p>', T2); t.rm('style.css'); t.put('script.js', b'console.log("NEW script")', T2)
            post = pr.serial(old, Q)
            post_c = ask_all(old, 2 if quick else 4)
            alive = old.alive()
            with R.Server(root, threads=rng.choice([1, 2, 4]), capture_stdout=False, env=env) as fresh:
                now = pr.serial(fresh, Q)
        if not alive:
            res.fail('server-terminated', dict(phase='churn', workers=N, status=old.status), (old.stderr() or '')[-600:], None, f'the server process ({N} workers) terminated: {old.status}')
        res.count('churn: requests after the files changed', len(Q) * (1 + (2 if quick else 4)))
        changed = 0
        for q, a_old, a_post, more, a_now in zip(Q, pre, post, post_c, now):
            exp = M.canon(a_now)
            if M.canon(a_old) != exp: changed += 1
            for phase, b in [('one at a time', a_post)] + [('under concurrency', x) for x in more]:
                res.evaluations += 1
                c = M.canon(b)
                if c != exp:
                    res.fail('history-dependence', pr.case(q, N, dict(phase='after the files on disk changed, ' + phase, answer_before_the_change=M.canon(a_old)[:80].decode('latin1'))),
                             C.hx(c[:3000]), C.hx(exp[:3000]),
                             f'the files on disk changed between two answers (nothing was in flight); the instance that had served the old state ({N} workers) answers this request differently from a '
                             'fresh instance looking at the same files: the response depends on what was served before, not only on the request, the files on disk and the configuration. '
                             + ('It is still the answer to the OLD state. ' if c == M.canon(a_old) else '') + M.who_else(c, [exp], [q], 0))
                    break
            # independent oracle: a plain GET of a regular file returns that file's bytes (as they are now)
            if q['plain'] and not isinstance(a_now, Exception) and M.status_of(a_now) == 200 and q['path'] in t.state and not q['path'].endswith(tuple(G.PAGES)):
                res.evaluations += 1
                if M.body_of(a_now) != t.state[q['path']]:
                    res.fail('serial-body-is-not-the-file', pr.case(q, N, dict(phase='fresh instance after the change')), C.hx(a_now[:2000]), C.hx(t.state[q['path']][:2000]),
                             f'GET {q["path"]} served alone by a fresh instance returned a body that is not the content of that file')
            if len(res.failures) > 50: break
        res.count('churn: requests whose answer changed with the files', changed)
    finally:
        shutil.rmtree(root, ignore_errors=True)
