"""C02, second generator audit (AUDIT2.md): feature-style input classes.

    batches(rng, thorough)      -> batches for servecheck.run_batches (real code AND model): the feature tree of vlib/gen_c02.py (side files,
                                   negotiation neighbours, host-named directories, access-control files, magic numbers, default documents,
                                   directory scans, conditional requests), long multi-byte values in every field a log line prints, files as
                                   long as the request buffer, several requests in one read (the second answer on a connection)
    scenarios(rng, thorough)    -> scenarios for props/c02_live.run_scenarios (real code only, judged by the oracle): modification times
                                   (conditional requests against the selected file's own time, side files older than their original, times
                                   before 1970 / after 2038 / after 2106), advisory locks held by another process, special files NEXT to
                                   the served ones, and CHURN: the files change between two answers of the same process
    STREAMS                     raw request bytes -> [target of the first request, of the second, ...] for requests sent in one read
"""
import os, socket, fcntl, time, email.utils
from vlib import common as C, serve as S, reqgen as G, servecheck as K, gen_c02 as X

STREAMS = {}
NOTJ = 'not-judged: '

def _u(x): return x.decode('utf-8', 'surrogateescape') if isinstance(x, bytes) else x

# ------------------------------------------------------------------------------------------------ batches (real code and model)
def batches(rng, thorough):
    out = []
    # 1. the feature tree
    tree, plan = X.feature_tree(rng, thorough)
    # (the plan in four parts, each with a copy of the tree and a process of its own: they run side by side; a request and its repetition stay together)
    parts = [(tree if i == 0 else tree.clone(), []) for i in range(4)]
    for i, (tg, hs, note) in enumerate(plan):
        tr, cs = parts[i * 4 // len(plan)]
        cs.append(K.mk(tr, 'GET', tg, hs, entry='proc', kind='lookup', note=note))
        if rng.chance(1, 10): cs.append(K.mk(tr, 'GET', tg, hs, entry=rng.choice(['aexec', 'preq']), kind='lookup', note=note))
    out.extend(parts)
    # 2. values, sizes, several requests in one read
    tree = X.new_tree(b'root')
    R = tree.cwd + b'/'
    tree.file(R + b'h/file.bin', X.pattern(300, 3)).file(R + b'h/index.html', b'<p>index of h</p>').file(R + b'h/page.html', b'<p>page in h</p>').file(R + b'h/data.json', b'{"a": 1}')
    tree.file(R + 'h/файл.txt'.encode(), 'содержимое'.encode()).file(R + b'g/other.txt', b'the other file').file(R + b'g/index.html', b'<p>index of g</p>')
    HT = ['/h/file.bin', '/h', '/h/page', '/h/missing', '/h/файл.txt', '/h/data.json']
    cs = []
    for suffix, hs in X.multibyte_values(rng, thorough):
        for t in (HT if thorough else [HT[rng.below(3)], rng.choice(HT[3:])]):
            if suffix.startswith('#') and '?' in t: continue
            cs.append(K.mk(tree, 'GET', t + suffix, hs, entry='proc', kind='lookup'))
    for a, s in X.alloc_sizes(thorough):
        k = rng.below(3)
        name = 'b/a%d-s%d' % (a, s)
        if k == 0: tree.file(R + name.encode() + b'.bin', X.pattern(s, a)); tg = '/' + name + '.bin'
        elif k == 1: tree.file(R + name.encode() + b'.html', X.pattern(s, a)); tg = '/' + name
        else: tree.file(R + name.encode() + b'/index.html', X.pattern(s, a)); tg = '/' + name
        if len(G.req('GET', tg)) < a: cs.append(K.mk(tree, 'GET', tg, (), entry='proc', alloc=a, kind='lookup'))
        cs.append(K.mk(tree, 'GET', tg, (), entry='proc', kind='lookup'))
    # a peer that takes few bytes per write call: the answer is what arrives in the end (a server that writes in pieces has to write all of them)
    tree.file(R + b'w/big.bin', X.pattern(70001, 9)).file(R + b'w/mid.html', X.pattern(16385, 8)).file(R + b'w/dir/index.html', X.pattern(8193, 7)).file(R + b'w/small.txt', b'small answer')
    for tg, scripts in [('/w/big.bin', ['c:4096', 'c:65536', 's:17.1.4096', 'c:8192']), ('/w/mid', ['c:4096', 's:1.1.1.1', 'c:1000']), ('/w/dir', ['c:4096', 'c:8191', 's:8192.1']), ('/w/small.txt', ['c:1', 'c:7', 's:3']),
                        ('/w/missing', ['c:1', 'c:100'])]:
        for ws in (scripts if thorough else [scripts[0], rng.choice(scripts[1:])]):
            cs.append(K.mk(tree, 'GET', tg, [('Host', 'localhost')], entry='proc', ws=ws, kind='lookup'))
    # several requests in one read: each is a GET of its own; whatever is answered has to be the answer to the request in that position
    KA = [('Host', 'localhost'), ('Connection', 'keep-alive')]
    def stream(parts, version='HTTP/1.1'):
        raw = b''.join(G.req('GET', t, version, hs, body) for t, hs, body in parts)
        STREAMS[raw] = [t for t, _, _ in parts]
        cs.append(K.mk(tree, 'GET', parts[0][0], parts[0][1], raw=raw, entry='proc', kind='lookup'))
    pairs = [('/h/file.bin', '/g/other.txt'), ('/h', '/g'), ('/h/page', '/h/missing'), ('/h/missing', '/h/file.bin'), ('/h/file.bin', '/h/file.bin'), ('/g/', '/h/'), ('/h/data.json', '/h/page.html'),
             ('/h/file.bin?a=1', '/g/other.txt#f')]
    for a, b in (pairs if thorough else [pairs[0], pairs[1 + rng.below(3)], rng.choice(pairs[4:])]):
        stream([(a, [('Host', 'localhost')], b''), (b, [('Host', 'localhost')], b'')])
        stream([(a, KA, b''), (b, KA, b'')])
        stream([(a, [], b''), (b, [], b'')])
    stream([('/h/file.bin', KA, b''), ('/g/other.txt', KA, b''), ('/h/page', [('Host', 'localhost'), ('Connection', 'close')], b'')])
    stream([('/h/file.bin', KA, b''), ('/g/other.txt', KA, b'')], 'HTTP/1.0')
    stream([('/h/file.bin', [('Host', 'localhost'), ('Content-Length', '0')], b''), ('/g/other.txt', [('Host', 'localhost')], b'')])
    stream([('/h/page', [('Host', 'localhost'), ('Content-Length', '5')], b'hello'), ('/g/other.txt', [('Host', 'localhost')], b'')])
    stream([('/h', [('Host', 'localhost'), ('Connection', 'keep-alive'), ('Keep-Alive', 'timeout=5, max=100')], b''), ('/h/missing', [('Host', 'localhost')], b'')])
    stream([('/h/file.bin', [('Host', 'localhost'), ('Expect', '100-continue')], b''), ('/g', [('Host', 'localhost')], b'')])
    stream([('/h/page', [('Host', 'localhost'), ('Transfer-Encoding', 'chunked')], b'0\r\n\r\n'), ('/g/other.txt', [('Host', 'localhost')], b'')])
    out.append((tree, cs))
    return out

# ------------------------------------------------------------------------------------------------ scenarios (real code, one process each, the check works on the directory)
T_OLD, T_MID, T_NEW = 1000000000, 1500000000, 1700000000

def http_date(t):
    return email.utils.formatdate(t, usegmt=True)

def _p(root, rel):
    return os.path.join(os.fsdecode(root), rel)

def _utime(path, t, ns=0, link=False):
    try: os.utime(path, ns=(t * 10 ** 9 + ns, t * 10 ** 9 + ns), follow_symlinks=not link)
    except (OSError, OverflowError, NotImplementedError): return False
    return True

def scenario_times(rng, thorough):
    """modification times: a conditional request is judged when its condition cannot hold for the file the lookup selects"""
    t = X.new_tree(b'root'); R = t.cwd + b'/'
    js = b'export const current = true;\n' * 5
    t.file(R + b't/new.txt', b'new.txt, modified in 2023').file(R + b't/old.txt', b'old.txt, modified in 2001').file(R + b't/d/index.html', b'<p>index of t/d (2023) in a directory last changed in 2001</p>')
    t.file(R + b't/pg.html', b'<p>t/pg.html (2023)</p>').file(R + b't/app.js', js).file(R + b't/app.js.gz', X.gz(b'export const current = false; // compressed in 2001\n' * 5))
    t.file(R + b't/lib.js', js + b'// lib').file(R + b't/lib.js.gz', X.gz(js + b'// lib')).file(R + b't/sec.txt', b'within the second')
    t.link(R + b't/lnk.txt', b'new.txt').link(R + b't/lnk2.txt', b'old.txt').link(R + b't/dl', b'd')
    t.file(R + b't/locked.txt', b'another process holds an exclusive flock on this file').file(R + b't/plocked.txt', b'another process holds a POSIX record lock on this file')
    edge = [('epoch0', 0), ('before1970', -86400 * 400), ('y2038', 2 ** 31 + 10), ('y2106', 2 ** 32 + 10), ('y9999', 253402300799), ('y10000', 253402300800 + 86400), ('subsec', T_NEW)]
    for n, _ in edge: t.file(R + b'e/' + n.encode() + b'.txt', b'modified: ' + n.encode())
    held = {}
    def fix(root):
        r = lambda rel: _p(root, 'root/' + rel)
        for rel, tm in [('t/new.txt', T_NEW), ('t/old.txt', T_OLD), ('t/d/index.html', T_NEW), ('t/pg.html', T_NEW), ('t/app.js', T_NEW), ('t/app.js.gz', T_OLD), ('t/lib.js', T_OLD), ('t/lib.js.gz', T_NEW),
                        ('t/locked.txt', T_NEW), ('t/plocked.txt', T_NEW)]:
            _utime(r(rel), tm)
        _utime(r('t/sec.txt'), T_NEW, 900000000)
        _utime(r('t/lnk.txt'), T_OLD, link=True); _utime(r('t/lnk2.txt'), T_NEW, link=True); _utime(r('t/dl'), T_OLD, link=True)
        for n, tm in edge: _utime(r('e/%s.txt' % n), tm, 999999999 if n == 'subsec' else 0)
        _utime(r('t/d'), T_OLD); _utime(r('t'), T_OLD)
    def lock(root):
        a = os.open(_p(root, 'root/t/locked.txt'), os.O_RDWR); fcntl.flock(a, fcntl.LOCK_EX)
        b = os.open(_p(root, 'root/t/plocked.txt'), os.O_RDWR); fcntl.lockf(b, fcntl.LOCK_EX)
        held['fds'] = [a, b]
    def unlock(root):
        for fd in held.pop('fds', []): os.close(fd)
    H0 = [('Host', 'localhost')]
    IMS = lambda tm: [('If-Modified-Since', http_date(tm))]
    steps = []
    def Q(tg, hs=(), note=None): steps.append(K.mk(t, 'GET', tg, H0 + list(hs), entry='proc', kind='lookup', note=note))
    for tg in ['/t/new.txt', '/t/d', '/t/d/', '/t/pg', '/t/lnk.txt', '/t/dl', '/t/dl/', '/t/new.txt?x=1', '/t/app.js', '/t/sec.txt']:
        Q(tg); Q(tg, IMS(T_MID)); Q(tg, IMS(T_OLD)); Q(tg, IMS(T_NEW - 1))
        Q(tg, IMS(T_NEW), NOTJ + 'the condition may hold'); Q(tg, IMS(T_NEW + 1), NOTJ + 'the condition may hold')
    for tg in ['/t/old.txt', '/t/lnk2.txt', '/t/lib.js']:
        Q(tg); Q(tg, IMS(T_OLD - 1)); Q(tg, IMS(T_MID), NOTJ + 'the condition may hold')
    for tg in ['/t/app.js', '/t/lib.js', '/t/app.js.gz']:
        for ae in ['gzip', 'gzip, br', 'identity']: Q(tg, [('Accept-Encoding', ae)]); Q(tg, [('Accept-Encoding', ae)] + IMS(T_MID if tg == '/t/app.js' else T_OLD - 1))
    for n, tm in edge:
        Q('/e/%s.txt' % n)
        Q('/e/%s.txt' % n, IMS(T_MID), None if tm > T_MID else NOTJ + 'the condition may hold')
        Q('/e/%s.txt' % n, [('If-Modified-Since', 'Thu, 01 Jan 1970 00:00:00 GMT')], None if tm > 0 else NOTJ + 'the condition may hold')
    steps.append(lock)
    for tg in ['/t/locked.txt', '/t/plocked.txt', '/t/new.txt']: Q(tg)
    steps.append(unlock)
    for tg in ['/t/locked.txt', '/t/plocked.txt']: Q(tg)
    return dict(name='times', tree=t, fix=fix, steps=steps, cleanup=unlock)

def scenario_special(rng, thorough):
    """special files NEXT to the served ones: the regular neighbours are served as ever (a scan of the directory, an open() of every entry,
    a stat that blocks would not come back)"""
    t = X.new_tree(b'lvl0/root'); R = t.cwd + b'/'
    t.file(R + b'sp/index.html', b'<p>index of sp</p>').file(R + b'sp/real.txt', b'a regular file between special ones').file(R + b'sp/page.html', b'<p>sp/page</p>')
    t.file(R + b'fd.html', b'<p>fd.html</p>').file(R + b'fp.html', b'<p>fp.html</p>').file(R + b'fd/keep.txt', b'keep').file(R + b'zz/last.txt', b'last')
    def fix(root):
        r = lambda rel: _p(root, 'lvl0/root/' + rel)
        for rel in ['sp/pipe', 'sp/pipe.txt', 'sp/0-first', 'sp/real.txt.gz', 'sp/index.html.gz', 'fd/index.html', 'pg.html', 'fp', 'sp/page.html.br']: os.mkfifo(r(rel))
        s = socket.socket(socket.AF_UNIX)
        try: s.bind(r('sp/sock'))
        finally: s.close()
        os.symlink('/dev/null', r('sp/dev-null')); os.symlink('/dev/zero', r('sp/zero.bin')); os.symlink('pipe', r('sp/to-pipe')); os.symlink('/dev/full', r('sp/real.txt.zst'))
    steps = []
    H0 = [('Host', 'localhost')]
    for tg in ['/sp/', '/sp', '/sp/real.txt', '/sp/page', '/sp/index.html', '/sp/page.html', '/fd/keep.txt', '/zz/last.txt', '/sp/missing', '/fd.html', '/fp.html']:
        steps.append(K.mk(t, 'GET', tg, H0, entry='proc', kind='lookup'))
        steps.append(K.mk(t, 'GET', tg, H0 + [('Accept-Encoding', 'gzip, br, zstd')], entry='proc', kind='lookup'))
    for tg in ['/sp/pipe', '/sp/pipe.txt', '/sp/sock', '/sp/dev-null', '/sp/to-pipe', '/fd', '/fd/', '/pg', '/fp', '/sp/zero.bin']:
        steps.append(K.mk(t, 'GET', tg, H0, entry='proc', kind='lookup', note=NOTJ + 'a special file is in the way of the lookup'))
    return dict(name='special', tree=t, fix=fix, steps=steps)

def _clone(tree):
    n = S.Tree(tree.cwd); n.root = tree.root; n.names = []
    n.files, n.dirs, n.links = dict(tree.files), list(tree.dirs), dict(tree.links)
    return n

def _apply(tree, root, ops, when):
    """the same operations on the check's picture of the tree (`tree`) and, when `root` is given, on the directory itself"""
    pre = tree.cwd + b'/'
    for op in ops:
        kind, rel = op[0], op[1]
        key = pre + rel.encode()
        path = _p(root, _u(pre) + rel) if root is not None else None
        if kind in ('put', 'replace'):
            content = op[2]
            if path:
                os.makedirs(os.path.dirname(path), exist_ok=True)
                if kind == 'replace':
                    tmp = path + '.c02-new'
                    with open(tmp, 'wb') as fh: fh.write(content)
                    _utime(tmp, when); os.replace(tmp, path)
                else:
                    with open(path, 'r+b' if os.path.isfile(path) and not os.path.islink(path) else 'wb') as fh:      # the same inode when the file exists
                        fh.seek(0); fh.write(content); fh.truncate()
                    _utime(path, when)
            tree.files[key] = content
        elif kind == 'rm':
            if path:
                import shutil
                if os.path.isdir(path) and not os.path.islink(path): shutil.rmtree(path)
                else: os.remove(path)
            for d in (tree.files, tree.links):
                for k in [k for k in d if k == key or k.startswith(key + b'/')]: del d[k]
            tree.dirs = [d for d in tree.dirs if d != key and not d.startswith(key + b'/')]
        elif kind == 'mv':
            to = pre + op[2].encode()
            if path: os.rename(path, _p(root, _u(pre) + op[2]))
            tree.files[to] = tree.files.pop(key)
        elif kind == 'link':
            if path:
                if os.path.lexists(path): os.remove(path)
                os.symlink(op[2], path)
            tree.links[key] = op[2].encode()
        elif kind == 'mkdir':
            if path: os.makedirs(path, exist_ok=True)
            tree.dirs.append(key)

def scenario_churn(rng, thorough):
    """the files change between two answers of the same process (nothing is in flight): what is asked afterwards is answered from the files
    as they are now.  Whatever a process may keep from one request to the next - file contents, sizes, times, tags, lookups, misses, side
    files it wrote - must not show in its answers."""
    fc = lambda i, n: X.pattern(n, 40 + i)
    a = X.new_tree(b'root')
    TA, TB, TC = 1600000000, 1600000100, 1600000200
    ops_a = [('put', 'k/grow.txt', fc(1, 1000)), ('put', 'k/shrink.txt', fc(2, 5000)), ('put', 'k/swap.html', fc(3, 800)), ('put', 'k/edit.bin', fc(4, 70000)), ('put', 'k/gone.txt', fc(5, 300)),
             ('put', 'k/fill.txt', b''), ('put', 'k/drain.txt', fc(6, 300)), ('put', 'k/mv.txt', fc(7, 310)), ('link', 'k/lnk.txt', 'grow.txt'), ('put', 'k/nd/other.txt', fc(8, 50)),
             ('put', 'k/wd/index.html', b'<p>index of wd, old</p>'), ('put', 'k/wd/keep.txt', b'keep'), ('put', 'k/p.html', b'<p>page p, old</p>'), ('put', 'k/t', fc(9, 120)), ('put', 'k/u/index.html', b'<p>index of u, old</p>'),
             ('put', 'k/both/index.html', b'<p>index of both</p>'), ('put', 'k/pg.html', b'<p>page pg.html, there first</p>'), ('put', 'k/same/data.txt', fc(10, 640)), ('put', 'k/other/data.txt', fc(11, 640)),
             ('put', '404.html', b'<p>not found, the OLD page</p>'), ('put', 'k/app.js', b'let state = "old";\n' * 40), ('put', 'k/idx/index.html', b'<p>idx, old</p>'), ('mkdir', 'k/later')]
    _apply(a, None, ops_a, TA)
    e = bytearray(fc(4, 70000)); e[33000:33100] = b'\xee' * 100
    ops_b = [('put', 'k/grow.txt', fc(1, 5000)), ('put', 'k/shrink.txt', fc(2, 100)), ('replace', 'k/swap.html', fc(33, 800)), ('put', 'k/edit.bin', bytes(e)), ('rm', 'k/gone.txt'), ('put', 'k/new.txt', fc(12, 300)),
             ('put', 'k/fill.txt', fc(13, 300)), ('put', 'k/drain.txt', b''), ('mv', 'k/mv.txt', 'k/mv2.txt'), ('link', 'k/lnk.txt', 'shrink.txt'), ('put', 'k/nd/index.html', b'<p>index of nd, NEW</p>'),
             ('rm', 'k/wd/index.html'), ('rm', 'k/p.html'), ('put', 'k/q.html', b'<p>page q, NEW</p>'), ('rm', 'k/t'), ('put', 'k/t/index.html', b'<p>t is a directory now</p>'), ('rm', 'k/u'), ('put', 'k/u', fc(14, 77)),
             ('put', 'k/both.html', b'<p>both.html appeared: the index still wins</p>'), ('put', 'k/pg/index.html', b'<p>pg/ appeared with an index: it wins over pg.html now</p>'),
             ('put', 'k/same/data.txt', fc(11, 640)), ('put', 'k/other/data.txt', fc(10, 640)), ('replace', '404.html', b'<p>not found, the NEW page, longer</p>'), ('put', 'k/app.js', b'let state = "NEW";\n' * 40),
             ('replace', 'k/idx/index.html', b'<p>idx, NEW</p>'), ('put', 'k/later/index.html', b'<p>later has an index now</p>')]
    b = _clone(a); _apply(b, None, ops_b, TB)
    ops_c = [('put', 'k/grow.txt', fc(21, 1000)), ('put', 'k/gone.txt', fc(25, 300)), ('rm', 'k/new.txt'), ('rm', 'k/nd/index.html'), ('put', 'k/wd/index.html', b'<p>index of wd, back again</p>'), ('rm', 'k/q.html'),
             ('rm', 'k/t'), ('put', 'k/t', fc(29, 120)), ('rm', 'k/pg'), ('rm', '404.html'), ('link', 'k/lnk.txt', 'grow.txt'), ('replace', 'k/app.js', b'let state = "third";\n' * 40), ('rm', 'k/later/index.html')]
    c = _clone(b); _apply(c, None, ops_c, TC)
    T = ['/k/grow.txt', '/k/shrink.txt', '/k/swap.html', '/k/swap', '/k/edit.bin', '/k/gone.txt', '/k/new.txt', '/k/fill.txt', '/k/drain.txt', '/k/mv.txt', '/k/mv2.txt', '/k/lnk.txt', '/k/nd', '/k/nd/', '/k/wd', '/k/wd/',
         '/k/p', '/k/p.html', '/k/q', '/k/q.html', '/k/t', '/k/t/', '/k/t/index.html', '/k/u', '/k/u/', '/k/both', '/k/pg', '/k/pg/', '/k/pg.html', '/k/same/data.txt', '/k/other/data.txt', '/k/missing.txt', '/k/grow.txt?x=1',
         '/k/app.js', '/k/idx', '/k/idx/', '/k/later', '/k/later/']
    H0 = [('Host', 'localhost')]
    seen = {}
    # targets whose selected file is another one, or has other bytes AND another time, after the change: a validator of the state before cannot hold
    CH_AB = ['/k/grow.txt', '/k/shrink.txt', '/k/swap.html', '/k/swap', '/k/edit.bin', '/k/fill.txt', '/k/drain.txt', '/k/lnk.txt', '/k/app.js', '/k/idx', '/k/idx/', '/k/same/data.txt', '/k/other/data.txt', '/k/t',
             '/k/u', '/k/pg', '/k/grow.txt?x=1']
    CH_BC = ['/k/grow.txt', '/k/lnk.txt', '/k/app.js', '/k/t', '/k/grow.txt?x=1']
    def ask(tree, when_before, times, steps, changed=()):
        for _ in range(times):
            order = list(T); rng.shuffle(order)
            for tg in order:
                steps.append(K.mk(tree, 'GET', tg, H0, entry='proc', kind='lookup'))
                if tg in ('/k/grow.txt', '/k/swap.html', '/k/edit.bin', '/k/app.js', '/k/lnk.txt', '/k/idx/', '/k/shrink.txt') or rng.chance(1, 6):
                    steps.append(K.mk(tree, 'GET', tg, H0 + [('Accept-Encoding', 'gzip')], entry='proc', kind='lookup'))
                    if when_before is not None and tg in changed:
                        # validators of the state before: the date of the old files, the tag the process itself gave out for the old file
                        steps.append(K.mk(tree, 'GET', tg, H0 + [('If-Modified-Since', http_date(when_before))], entry='proc', kind='lookup'))
                        steps.append(('dyn', (lambda tg, tree: lambda results: _with_old_tag(tree, tg, results, seen))(tg, tree)))
    steps = []
    ask(a, None, 2, steps)
    steps.append(('mark', 'a'))
    steps.append(lambda root: _apply(_clone(a), root, ops_b, TB))
    ask(b, TA, 2, steps, CH_AB)
    if thorough or rng.chance(1, 2):
        steps.append(('mark', 'b'))
        steps.append(lambda root: _apply(_clone(b), root, ops_c, TC))
        ask(c, TB, 2 if thorough else 1, steps, CH_BC)
    def fix(root): _apply(_fresh(a), root, ops_a, TA)
    return dict(name='churn', tree=_fresh(a), fix=fix, steps=steps, marks=seen)

def _fresh(tree):
    """an empty tree at the same place (the files are written by the fix-up, with their times)"""
    n = S.Tree(tree.cwd); n.root = tree.root; n.names = []
    return n

def _with_old_tag(tree, tg, results, seen):
    """If-None-Match with the entity tag the process gave out for this target BEFORE the last change (when it gives out tags at all)"""
    import re
    mark = seen.get('pos', 0)
    for c, r, _ in reversed(results[:mark]):
        if c.target == tg and r['recv']:
            m = re.search(rb'(?i)\r\netag: *([^\r\n]+)\r\n', r['recv'][:r['recv'].find(b'\r\n\r\n') + 2])
            if m: return K.mk(tree, 'GET', tg, [('Host', 'localhost'), ('If-None-Match', m.group(1).decode('latin1'))], entry='proc', kind='lookup')
            return None
    return None

def env_batch(rng, thorough, tree_and_plan=None):
    """a sample of the feature plan for the run under the second configuration (props/c02.py build_env)"""
    tree, plan = X.feature_tree(rng, False)
    cs = []
    for tg, hs, note in (plan if thorough else [rng.choice(plan) for _ in range(120)]):
        hs = hs + rng.choice([[], [], [('Origin', 'https://foo.example')], [('Origin', 'https://bar.example')]])
        cs.append(K.mk(tree, 'GET', tg, hs, entry='proc', kind='lookup', note=note))
    return (tree, cs)

def scenarios(rng, thorough):
    return [scenario_times(rng, thorough), scenario_special(rng, thorough), scenario_churn(rng, thorough)]
