"""C07 — the worker pool runs every task exactly once, N at a time, without deadlock.
Tie: event traces recorded from the REAL ThreadPool through the cfg(rws_verif) hooks must be
runs of the Lean model `Rws.Pool` (op pooltrace) ending with every submitted task done exactly
once; the rendezvous probe makes the real pool EXHIBIT the model's "N running" state.
Oracle on the implementation alone: every task body entered exactly once, every scenario
(incl. N tasks blocking on a barrier of N) completes within 10 s.
Second audit pass (audit/C07/AUDIT2.md, vlib/gen_c07.py `fixed2` / `slow2` / `huge`): the relations a FEATURE added to the pool would
hinge on - where the rendezvous sits in a deep backlog, how long a job has been running / a queued job has been waiting when the next
submit comes, how long and how often the pool was idle before a burst, how many jobs panicked on one pool.  The scripts whose submitter
sleeps run in a lane of their own next to the main batch (`gen_slow`)."""
from vlib import common as C
from vlib import gen_c07 as G
from props import pool_common as P

DRIVERS = ['Pool']   # model driver files this check runs: scopes translator failures to the tables they (and the proofs) import
TRUSTED = ['cfg(rws_verif) hooks in src/thread_pool/mod.rs (add-only; same statements compiled with the guard on and off)',
           'harness callback ordering: a worker that has just taken the lock waits for the previous holder\'s `r` event to be logged (linearises the log; see harness/src/ops/pool.rs)',
           'std::sync::{Mutex, mpsc} semantics as modelled (atomic lock, FIFO channel, blocking recv)']
ASSUMPTIONS = ['the OS scheduler is sampled (seeded yields/sleeps at the four hook points), not enumerated: the theorems cover all interleavings on the model, the tie samples them on the code',
               'the ThreadPool value stays alive (Sender not dropped) while tasks are pending, as in Server::run']

def gen(rng, tier):
    lines = []
    def add(n, kinds, perturb): lines.append(P.scenario(n, kinds, rng.below(1 << 32), perturb))
    # probe batch first: the rendezvous for every N, plain and perturbed
    for n in range(1, 9):
        add(n, 'b' * n, False); add(n, 'b' * n, True)
    nprobe = len(lines)
    for n in range(1, 9):
        add(n, '', True); add(n, 'i', True); add(n, 'i' * (4 * n), False); add(n, 'i' * (4 * n), True)
        add(n, 'b' * (2 * n), True); add(n, 'l' * n + 'i' * n, True)
        add(n, 'l' + 'b' * n, True)                       # a slow task delays at most its own worker...
        add(n, ('l' * (n - 1)) + 'i' * (3 * n), True)     # ...the rest is served by the remaining ones
    total = 300 if tier == 'quick' else 20000
    while len(lines) < total:
        n = rng.range(1, 8)
        k = rng.range(0, 4 * n)
        shape = rng.below(6)
        if shape == 0:
            kinds = ['i'] * k
        elif shape == 1:
            kinds = [rng.choice('iiel') for _ in range(k)]
            while kinds.count('l') > n: kinds[kinds.index('l')] = 'i'
        else:
            g = rng.range(1, max(1, min(3, k // n))) if k >= n else 0     # groups of N blocking tasks
            kinds = ['b'] * (g * n) + [rng.choice('iiiel') for _ in range(k - g * n)]
            while kinds.count('l') > n: kinds[kinds.index('l')] = 'i'
            rng.shuffle(kinds)
        if kinds and 'b' not in kinds and rng.chance(1, 4):   # submitter pauses until the pool is idle
            kinds.insert(rng.below(len(kinds)), 'w')
        add(n, ''.join(kinds), rng.chance(4, 5))
    # generator audit (vlib/gen_c07.py): pauses combined with rendezvous bursts, backlogs far beyond 4N, long
    # per-worker histories, idle periods, N up to 64, panicking tasks in the mix; shuffled (the slow scripts must
    # not share one harness batch) and spread evenly over the random scripts above
    CLASS.clear()
    extra = G.extras(rng, tier)
    rng.shuffle(extra)
    nfixed = nprobe + 64
    base, lines = lines[nfixed:], lines[:nfixed]
    tail = []
    for cls, n, kinds, perturb in extra:
        ln = P.scenario(n, kinds, rng.below(1 << 32), perturb)
        CLASS[ln] = cls
        tail.append(ln)
    lines += G.interleave(base, tail)
    return lines, nprobe

CLASS = {}   # scenario line -> audit class (for the counters of the evidence file)

def gen_slow(rng, tier):
    """second audit pass: the scenarios whose submitter sleeps (0.3 .. 7.2 s each).  They get a lane of their own - one harness process
    per scenario, many at a time, started together with the main batch - so that they cost (almost) no run time"""
    out = []
    for cls, n, kinds, perturb in G.check_legal(G.slow2(tier)):
        ln = P.scenario(n, kinds, rng.below(1 << 32), perturb)
        CLASS[ln] = cls
        out.append(ln)
    return out

def judge_huge(res, rng, tier):
    """thorough only: histories of 34 000 .. 70 000 tasks on one pool, judged by the oracle alone (every body entered exactly once, the
    scenario - ending with the rendezvous - completes, as many starts and ends in the trace as tasks); not replayed on the model"""
    for cls, n, kinds, perturb in G.check_legal(G.huge(tier)):
        ln = P.scenario(n, kinds, rng.below(1 << 32), perturb)
        out = P.run_pool([ln], parallel=1)[0]
        short = ln[:40] + '…' + ln[-40:]
        res.count('class:' + cls + ' (oracle only)')
        if not out.startswith('N='):
            res.fail('pool-harness:' + (out.split() or ['?'])[0], short, out[:200], None, 'the pool scenario did not produce a result line'); continue
        f = P.fields(out)
        counts = [int(x) for x in f['counts'].split(',')]
        tr = f['trace'].split(',')
        ntasks = sum(1 for c in kinds if c not in 'wz')
        bad = [(i, c) for i, c in enumerate(counts) if c != 1][:8]
        if f['status'] != 'ok':
            res.fail('pool-timeout', short, out[-300:], None, f'not every task completed within 10 s (first tasks not executed exactly once: {bad})')
        elif bad:
            res.fail('pool-exactly-once', short, out[-300:], None, f'tasks not executed exactly once: {bad}')
        elif sum(1 for e in tr if e[0] == 'b') != ntasks or sum(1 for e in tr if e[0] in 'fc') != ntasks:
            res.fail('pool-trace-count', short, out[-300:], None, f'task starts / ends in the trace differ from the {ntasks} tasks')

def judge_drop(res, rng, tier):
    """the pool HANDLE is dropped while tasks are still queued behind busy workers (step `d`, always last): what was handed to the pool has
    to run all the same - "no task is lost".  One harness process per scenario (the threads of a dropped pool stay behind); no trace, no
    model (the model has no such step): judged by the counts alone"""
    lines = []
    for n in ((1, 2, 3) if tier == 'quick' else (1, 2, 3, 4, 8)):
        for hist in ('l' * n + 'i' * (3 * n), 'l' * (2 * n) + 'e' + 'i' * n, 'l' * n + 'p' + 'i' * (2 * n) + 'l', 'i' * (4 * n), ''):
            lines.append(P.scenario(n, hist + 'd', rng.below(1 << 32), rng.chance(1, 2)))
    outs = P.run_pool(lines, parallel=8, batch=1)
    for ln, out in zip(lines, outs):
        res.evaluations += 1
        res.count('class:pool handle dropped with a backlog (oracle only)')
        res.distinct.add(hash(ln))
        if not out.startswith('N='):
            res.fail('pool-harness:' + (out.split() or ['?'])[0], ln, out[:200], None, 'the pool scenario did not produce a result line'); continue
        f = P.fields(out)
        counts = [] if f['counts'] == '-' else [int(x) for x in f['counts'].split(',')]
        bad = [(i, c) for i, c in enumerate(counts) if c != 1][:8]
        if bad or f['status'] != 'ok':
            res.fail('pool-task-lost-at-drop', ln, out[-300:], None, f'the pool handle was dropped after the last submit; tasks not executed exactly once: {bad}')

def run(res, tier, seed):
    rng = C.Rng(seed)
    lines, nprobe = gen(rng, tier)
    rng2 = rng.fork('audit2')
    slow = gen_slow(rng2, tier)
    impl = P.run_pool(lines[:nprobe], parallel=1)
    if not any('status=timeout' in x for x in impl):
        import threading
        box = []
        th = threading.Thread(target=lambda: box.append(P.run_pool(slow, parallel=12 if tier == 'quick' else 24, batch=1)))
        th.start()
        impl += P.run_pool(lines[nprobe:])
        th.join()
        impl += box[0] if box else ['skipped'] * len(slow)
        judge_huge(res, rng2, tier)
        judge_drop(res, rng.fork('drop'), tier)
    else:
        impl += ['skipped'] * (len(lines) - nprobe + len(slow))
    lines = lines + slow
    answers = P.judge(res, 'C07', lines, impl)
    # off by default (VERIF_C07_LOGPIPE=1): the real binary with its stdout on a pipe whose reader is gone / does not read - a finding on the
    # unchanged tree outside the quantifier of C07, see props/c07_logpipe.py
    from props import c07_logpipe
    c07_logpipe.run_part(res)
    for ln, out in zip(lines, impl):
        if out == 'skipped': continue
        n, kinds = P.parse_scenario(ln)
        res.count(f'N={n}')
        res.count('kind:' + ('rendezvous' if 'b' in kinds else 'long' if 'l' in kinds else 'empty' if not kinds else 'instant'))
        res.count('perturbed' if ln.endswith('perturb=1') else 'unperturbed')
        ntasks = sum(1 for c in kinds if c not in 'wz')
        res.count('tasks: ' + ('<=4N' if ntasks <= 4 * n else '<=16N' if ntasks <= 16 * n else '>16N'))
        if 'w' in kinds and 'b' in kinds: res.count('pause and rendezvous in one script')
        if 'z' in kinds:
            zs = max(len(x) for x in __import__('re').findall('z+', kinds))
            res.count('longest sleep of the submitter: ' + ('0.3 s' if zs == 1 else '<= 0.9 s' if zs <= 3 else '<= 2.1 s' if zs <= 7 else '<= 3.3 s' if zs <= 11 else '> 3.3 s'))
        if ln in CLASS: res.count('class:' + CLASS[ln])
    res.rule = ('one case = one scenario (N in 1..8 and a few N in 9..64, 0..4N tasks - in the backlog / history classes up to '
                'several thousand - of kinds instant/error/long/blocking-on-a-barrier-of-N/panicking, '
                'submitter pauses (also between rendezvous rounds), submitter sleeps of 0.3 .. 3.3 s (thorough 7.2 s) with the pool idle or partly '
                'blocked in a rendezvous that is completed afterwards, seeded yields/sleeps at the four hook points) run on a fresh real ThreadPool; '
                'its recorded event trace is replayed on the model; distinct = distinct (scenario, trace) pairs')
    ms = [int(P.fields(o).get('ms', 0)) for ln, o in zip(lines, impl) if o.startswith('N=') and 'b' in P.parse_scenario(ln)[1]]
    if ms: res.notes.append(f'rendezvous scenarios: {len(ms)}, slowest {max(ms)} ms (timeout 10000 ms)')
    for k in (0, nprobe + 5, len(lines) - 1):
        if k < len(lines) and impl[k] != 'skipped':
            res.sample({'scenario': lines[k], 'implementation': impl[k][:300], 'model': answers.get(k)})

def replay(rp):
    case = rp.get('case') or (rp.get('correspondence') or {}).get('case')
    if isinstance(case, dict) and case.get('mode') == 'log-pipe':
        from props import c07_logpipe
        return c07_logpipe.replay(case)
    return P.replay('C07', rp)
