"""C07 — the worker pool runs every task exactly once, N at a time, without deadlock.
Tie: event traces recorded from the REAL ThreadPool through the cfg(rws_verif) hooks must be
runs of the Lean model `Rws.Pool` (op pooltrace) ending with every submitted task done exactly
once; the rendezvous probe makes the real pool EXHIBIT the model's "N running" state.
Oracle on the implementation alone: every task body entered exactly once, every scenario
(incl. N tasks blocking on a barrier of N) completes within 10 s."""
from vlib import common as C
from vlib import gen_c07 as G
from props import pool_common as P

DRIVERS = ['Pool']   # model driver files this check runs: scopes translator failures to the tables they (and the proofs) import
TRUSTED = ['cfg(rws_verif) hooks in src/thread_pool/mod.rs (add-only; same statements compiled with the guard on and off)',
           'harness callback ordering: a worker that has just taken the lock waits for the previous holder\'s `r` event to be logged (linearises the log; see harness/src/ops/pool.rs)',
           'std::sync::{Mutex, mpsc} semantics as modelled (atomic lock, FIFO channel, blocking recv)']
ASSUMPTIONS = ['the OS scheduler is sampled (seeded yields/sleeps at the four hook points), not enumerated: the theorems cover all interleavings on the model, the tie samples them on the code',
               'the ThreadPool value stays alive (Sender not dropped) while tasks are pending, as in Server::run']

def gen(rng, tier):
    lines = []
    def add(n, kinds, perturb): lines.append(P.scenario(n, kinds, rng.below(1 << 32), perturb))
    # probe batch first: the rendezvous for every N, plain and perturbed
    for n in range(1, 9):
        add(n, 'b' * n, False); add(n, 'b' * n, True)
    nprobe = len(lines)
    for n in range(1, 9):
        add(n, '', True); add(n, 'i', True); add(n, 'i' * (4 * n), False); add(n, 'i' * (4 * n), True)
        add(n, 'b' * (2 * n), True); add(n, 'l' * n + 'i' * n, True)
        add(n, 'l' + 'b' * n, True)                       # a slow task delays at most its own worker...
        add(n, ('l' * (n - 1)) + 'i' * (3 * n), True)     # ...the rest is served by the remaining ones
    total = 300 if tier == 'quick' else 20000
    while len(lines) < total:
        n = rng.range(1, 8)
        k = rng.range(0, 4 * n)
        shape = rng.below(6)
        if shape == 0:
            kinds = ['i'] * k
        elif shape == 1:
            kinds = [rng.choice('iiel') for _ in range(k)]
            while kinds.count('l') > n: kinds[kinds.index('l')] = 'i'
        else:
            g = rng.range(1, max(1, min(3, k // n))) if k >= n else 0     # groups of N blocking tasks
            kinds = ['b'] * (g * n) + [rng.choice('iiiel') for _ in range(k - g * n)]
            while kinds.count('l') > n: kinds[kinds.index('l')] = 'i'
            rng.shuffle(kinds)
        if kinds and 'b' not in kinds and rng.chance(1, 4):   # submitter pauses until the pool is idle
            kinds.insert(rng.below(len(kinds)), 'w')
        add(n, ''.join(kinds), rng.chance(4, 5))
    # generator audit (vlib/gen_c07.py): pauses combined with rendezvous bursts, backlogs far beyond 4N, long
    # per-worker histories, idle periods, N up to 64, panicking tasks in the mix; shuffled (the slow scripts must
    # not share one harness batch) and spread evenly over the random scripts above
    CLASS.clear()
    extra = G.extras(rng, tier)
    rng.shuffle(extra)
    nfixed = nprobe + 64
    base, lines = lines[nfixed:], lines[:nfixed]
    tail = []
    for cls, n, kinds, perturb in extra:
        ln = P.scenario(n, kinds, rng.below(1 << 32), perturb)
        CLASS[ln] = cls
        tail.append(ln)
    lines += G.interleave(base, tail)
    return lines, nprobe

CLASS = {}   # scenario line -> audit class (for the counters of the evidence file)

def run(res, tier, seed):
    rng = C.Rng(seed)
    lines, nprobe = gen(rng, tier)
    impl = P.run_pool(lines[:nprobe], parallel=1)
    if not any('status=timeout' in x for x in impl):
        impl += P.run_pool(lines[nprobe:])
    else:
        impl += ['skipped'] * (len(lines) - nprobe)
    answers = P.judge(res, 'C07', lines, impl)
    for ln, out in zip(lines, impl):
        if out == 'skipped': continue
        n, kinds = P.parse_scenario(ln)
        res.count(f'N={n}')
        res.count('kind:' + ('rendezvous' if 'b' in kinds else 'long' if 'l' in kinds else 'empty' if not kinds else 'instant'))
        res.count('perturbed' if ln.endswith('perturb=1') else 'unperturbed')
        ntasks = sum(1 for c in kinds if c not in 'wz')
        res.count('tasks: ' + ('<=4N' if ntasks <= 4 * n else '<=16N' if ntasks <= 16 * n else '>16N'))
        if 'w' in kinds and 'b' in kinds: res.count('pause and rendezvous in one script')
        if ln in CLASS: res.count('class:' + CLASS[ln])
    res.rule = ('one case = one scenario (N in 1..8 and a few N in 9..64, 0..4N tasks - in the backlog / history classes up to '
                'several thousand - of kinds instant/error/long/blocking-on-a-barrier-of-N/panicking, '
                'submitter pauses (also between rendezvous rounds), seeded yields/sleeps at the four hook points) run on a fresh real ThreadPool; '
                'its recorded event trace is replayed on the model; distinct = distinct (scenario, trace) pairs')
    ms = [int(P.fields(o).get('ms', 0)) for ln, o in zip(lines, impl) if o.startswith('N=') and 'b' in P.parse_scenario(ln)[1]]
    if ms: res.notes.append(f'rendezvous scenarios: {len(ms)}, slowest {max(ms)} ms (timeout 10000 ms)')
    for k in (0, nprobe + 5, len(lines) - 1):
        if k < len(lines) and impl[k] != 'skipped':
            res.sample({'scenario': lines[k], 'implementation': impl[k][:300], 'model': answers.get(k)})

def replay(rp):
    return P.replay('C07', rp)
