"""C05 — responses are well-formed, self-consistent HTTP and delivered in full.
Oracle (implementation only): strict HTTP/1.1 grammar (vlib/strict_http.py), registered status
with its reason phrase, Content-Length = body bytes, no body for HEAD/OPTIONS, no framing header
twice, client text cannot add or split header lines (response header NAMES are from the server's
own fixed vocabulary), and under every short-write script the peer receives the whole response."""
from vlib import common as C, serve as S, reqgen as G, strict_http as H, servecheck as K, gen_c05 as X
from props import c05_stream as T

DRIVERS = ['Serve']   # model driver files this check runs: scopes translator failures to the tables they (and the proofs) import
TRUSTED = ['scripted transport: any non-empty prefix may be accepted per write call; flush is a separate call']
ASSUMPTIONS = ['strict grammar oracle vlib/strict_http.py written independently of the serialiser']
WITH_MODEL = True

SERVER_HEADER_NAMES = {x.lower() for x in [
    'Access-Control-Allow-Origin', 'Access-Control-Allow-Credentials', 'Access-Control-Allow-Methods', 'Access-Control-Allow-Headers',
    'Access-Control-Expose-Headers', 'Access-Control-Max-Age', 'Accept-CH', 'Critical-CH', 'Vary', 'X-Content-Type-Options', 'Accept-Ranges',
    'X-Frame-Options', 'Date-Unix-Epoch-Nanos', 'Cache-Control', 'Last-Modified-Unix-Epoch-Nanos', 'Content-Type', 'Content-Range', 'Content-Length']}

# response fields of the HTTP registry a server feature may start to send (compression, validators, connection handling, redirects,
# authentication, security policies): not evidence of client text in the head by their NAME - a line of this kind that the client
# wrote is recognised by its value (the marker clause below) and by the grammar.  Set-Cookie stays out: no feature on this path sets one.
STANDARD_RESPONSE_FIELDS = {x.lower() for x in [
    'Date', 'Server', 'Connection', 'Keep-Alive', 'Content-Encoding', 'Content-Language', 'Content-Location', 'Content-Disposition', 'Content-MD5', 'Digest', 'Content-Digest',
    'Repr-Digest', 'ETag', 'Last-Modified', 'Expires', 'Age', 'Allow', 'Location', 'Retry-After', 'Upgrade', 'WWW-Authenticate', 'Proxy-Authenticate', 'Preference-Applied', 'Trailer',
    'Transfer-Encoding', 'Link', 'Strict-Transport-Security', 'Content-Security-Policy', 'Referrer-Policy', 'Permissions-Policy', 'Cross-Origin-Resource-Policy',
    'Cross-Origin-Opener-Policy', 'Cross-Origin-Embedder-Policy', 'Timing-Allow-Origin', 'Access-Control-Allow-Private-Network', 'Sec-WebSocket-Accept', 'Alt-Svc', 'Server-Timing',
    'Accept-Encoding', 'Accept-Patch', 'Accept-Post', 'Warning', 'Via']}

HOSTILE = ['http://a\rX-Evil: 1', 'http://a\nX-Evil: 1', 'http://a\r\nX-Evil: 1', 'http://a\r\n\r\n<html>', 'a\x00b', 'a: b: c', ': x', 'x:',
           '\r', '\n', 'é\r\nSet-Cookie: a=b', 'http://a\x0bX-Evil: 1', 'http://a\x0cX-Evil: 1', 'http://a\x85X-Evil: 1', 'http://a X-Evil: 1']

def build(rng, tier):
    batches = []
    for ti in range(4 if tier == 'quick' else 40):
        tree = S.gen_tree(rng, small=True)
        paths = ['/' + n.decode('utf-8', 'surrogateescape') for n in tree.names] + ['/sub', '/sub/', '/page', '/missing', '/', '/style.css']
        cases = []
        # hostile echo values on every echo site, every method
        for hv in HOSTILE:
            for name in ('Origin', 'Access-Control-Request-Method', 'Access-Control-Request-Headers', 'Range', 'Content-Type', 'Host', 'X-Any'):
                m = rng.choice(['GET', 'OPTIONS', 'HEAD', 'POST'])
                hs = [('Origin', 'http://o')] if name != 'Origin' else []
                cases.append(K.mk(tree, m, rng.choice(paths), hs + [(name, hv)], entry=rng.choice(['proc', 'proc', 'preq']), kind='hostile:' + name))
        # every way a client can break lines around a value the server echoes: continuation lines (obsolete folding: a line that
        # starts with SP or HTAB), bare-LF and bare-CR line ends, mixed within one request, blank-looking lines
        for name, val in (('Origin', 'https://a.example'), ('Access-Control-Request-Headers', 'X-One'), ('Access-Control-Request-Method', 'PUT'), ('Host', 'localhost')):
            for cont in (b' b', b'\tb', b' ', b'  X-Injected: 1', b' b\r', b'\t'):
                for e1 in (b'\r\n', b'\n', b'\r'):
                    for e2 in (b'\r\n', b'\n', b'\r', b'\n\n'):
                        m = rng.choice(['GET', 'OPTIONS', 'OPTIONS', 'HEAD'])
                        raw = f'{m} {rng.choice(paths)} HTTP/1.1'.encode() + e1 + b'Host: h' + e1 + (b'Origin: http://o' + e1 if name != 'Origin' else b'') + \
                              f'{name}: {val}'.encode() + e1 + cont + e2 + b'X-After: z' + e1 + e1
                        cases.append(K.mk(tree, m, '?', raw=raw, entry=rng.choice(['proc', 'proc', 'preq']), kind='folded-line'))
        # long reflected values: the head grows with them (a budget, a fixed buffer or a cut must not cost the response its shape)
        for n in (500, 1000, 2000, 3000, 3500, 3600, 4000, 4040, 5000, 6000, 7000, 7200, 7300, 7500, 8000, 8100, 8159, 8160, 8192, 8500, 9000, 9500):
            for name in ('Origin', 'Access-Control-Request-Headers'):
                m = 'OPTIONS' if name != 'Origin' or rng.chance(1, 2) else 'GET'
                hs = ([('Origin', 'http://o')] if name != 'Origin' else []) + [(name, 'x' * n)] + ([('Access-Control-Request-Method', 'PUT')] if m == 'OPTIONS' else [])
                cases.append(K.mk(tree, m, rng.choice(paths), hs, entry=rng.choice(['proc', 'preq']), kind='long-reflected-value'))
        # all methods x paths
        for i in range(150 if tier == 'quick' else 1500):
            m, t, v, hs, b = G.valid_request(rng, paths)
            cases.append(K.mk(tree, m, t, hs, b, v, entry=rng.choice(['proc', 'preq']), kind='valid'))
        for i in range(60 if tier == 'quick' else 600):
            m, t, v, hs, b = G.valid_request(rng, paths)
            raw = G.mutate(rng, G.req(m, t, v, hs, b))
            cases.append(K.mk(tree, m, t, hs, raw=raw, kind='mutated'))
        # short-write scripts: every chunk size 1..64, and a chunk boundary at every byte of the head
        t0 = rng.choice(paths)
        for n in list(range(1, 65)) + [100, 1000, 4096]:
            cases.append(K.mk(tree, 'GET', t0, ws=f'c:{n}', entry=rng.choice(['proc', 'preq']), kind='chunk'))
        head_len = 1300
        step = 1 if tier == 'thorough' else 7
        for k in range(1, head_len, step):
            cases.append(K.mk(tree, 'GET', t0, ws=f's:{k}', kind='boundary'))
            if rng.chance(1, 6): cases.append(K.mk(tree, 'GET', t0, ws=f's:{k}.1.2.{rng.range(1,50)}', kind='boundary-multi'))
        for k in (0, 1, 2):
            cases.append(K.mk(tree, 'GET', t0, ws=f'e:{k}', kind='write-error'))
        # responses larger than one 64 KiB block under short writes (a blockwise sender must not lose its place)
        if ti == 0:
            big = bytes((j * 131 + (j >> 8) * 29 + (j >> 16) * 7 + 17) & 0xff for j in range(77292))
            tree.file(tree.cwd + b'/big.bin', big)
            for ws in ('c:8192', 'c:40000', 'c:65535', 'c:65536', 'c:65537', 'c:1000', 's:65536.1.2.3', 's:70000.7', 'c:100000'):
                cases.append(K.mk(tree, 'GET', '/big.bin', ws=ws, entry=rng.choice(['proc', 'preq']), kind='big-chunk'))
                cases.append(K.mk(tree, 'GET', '/big.bin', [('Range', 'bytes=5-70004')], ws=ws, kind='big-chunk'))
        cases.append(K.mk(tree, 'GET', t0, flush='e', kind='flush-error'))
        cases.append(K.mk(tree, 'GET', t0, flush='e', entry='preq', kind='flush-error'))
        batches.append((tree, cases))
    return batches

def build_extra(rng, tier):
    """[(environment | None, [(tree, cases)])]: the input classes of vlib/gen_c05.py (see its head); build() above is left as it
    is (props/c10.py runs a slice of it)"""
    head = X.measure_head()
    if tier == 'quick':
        default = [X.sites_batch(rng, tier), X.framing_batch(rng, tier), X.echo_batch(rng, tier), X.length_batch(rng, tier, head)]
    else:
        default = [X.sites_batch(rng, tier, k, 8) for k in range(8)] + [X.framing_batch(rng, tier), X.echo_batch(rng, tier), X.length_batch(rng, tier, head)]
        for _ in range(6): default += [X.sites_batch(rng, 'quick'), X.framing_batch(rng, tier), X.echo_batch(rng, tier)]
    default += X.second_pass_batches(rng, tier)
    return [(None, default)] + [(env, [(tree, cases)]) for env, tree, cases in X.config_batches(rng, tier)]

def run_groups(groups):
    """groups: [(environment, batches)]; one K.run_batches call per environment, side by side"""
    import threading
    out = [None] * len(groups)
    def work(i):
        env, batches = groups[i]
        out[i] = K.run_batches(batches, with_model=WITH_MODEL, env=env)
    ts = [threading.Thread(target=work, args=(i,)) for i in range(len(groups))]
    for t in ts: t.start()
    for t in ts: t.join()
    if any(o is None for o in out): raise RuntimeError('a batch group did not finish')
    return [x for o in out for x in o]

def same_answer(il, ml):
    """S.canon leaves a line alone when nothing was written: the legacy entry point still RETURNS the response it could not write
    (first write call failed), time stamps included - they are masked here before the two sides are compared"""
    if il == ml: return True
    a, b = il.split(' '), ml.split(' ')
    if len(a) != 4 or len(b) != 4 or a[1:] != b[1:] or not (a[0].startswith('ret:') and b[0].startswith('ret:')): return False
    try: return S.mask_ts(C.unhx(a[0][4:])) == S.mask_ts(C.unhx(b[0][4:]))
    except ValueError: return False

def judge(res, results, status_table=None):
    """what the PEER sees is judged: every buffer the transport was handed, as one stream (props/c05_stream.py)"""
    table = status_table or T.STATUS
    # the same request on a transport that accepts everything: what the server emits, whatever the number of buffers
    twins = {T.twin_key(c): r['recv'] for c, r, il, ml in results if c.ws == 'all' and r['writes']}
    for c, r, il, ml in results:
        res.evaluations += 1
        res.count(c.kind.split(':')[0] + ' ' + c.entry)
        res.distinct.add(hash((c.entry, c.raw, c.ws, c.flush, c.app, c.alloc, c.line[:24])))
        if ml is not None:
            res.programs += 1
            if not same_answer(il, ml): res.disagree(c.line[:400], il[:400], ml[:400], 'Server.process/Response.generate_response')
        head = K.judge_common(res, c, r, 'C05')
        if head is None: continue
        full = r['writes'][0] if r['writes'] else b''
        if c.ws.startswith('e:') and not r['writes']:
            continue   # the very first write call failed: nothing was emitted, Server::process must report it
        parsable = K.request_is_parsable(c.raw, 10000 if c.alloc is None else c.alloc)
        declared = c.method.split(',')      # several requests sent in one go: the method of each
        meth = (declared[0] if c.kind != 'mutated' and c.method != '?' else c.raw.split(b'\n', 1)[0].decode('utf-8', 'replace').strip(K.RUST_WS).split(' ', 1)[0]) if parsable else 'GET'
        methods = [meth] + declared[1:] if parsable else [meth]
        # the bytes the server emitted: its one buffer; when it handed over several (an interim answer, head and body apart, a
        # second answer) everything a transport that accepts all receives - unless the first buffer already is a whole answer:
        # then nothing may follow it (the delivery clause below says so)
        single = T.single_buffer(r, c.ws) or T.complete_final(full, table, meth)
        twin = twins.get(T.twin_key(c))
        emitted = full if single else r['recv'] if c.ws == 'all' else twin if twin is not None else full
        try: stream = T.split_stream(emitted, table, methods)
        except H.Bad as e:
            res.fail('malformed-response', c.line[:300], emitted[:160].hex(), None, f'C05: emitted bytes are not a well-formed response: {e}')
            continue
        for resp, m in stream:
            bad = H.check_framing(resp, m) if m != 'interim' else (['body-on-interim'] if resp['body'] else [])
            if resp['status'] == 304 and not resp['body']: bad = [b for b in bad if b != 'content-length-mismatch']   # HTTP's other exception
            for b in bad:
                res.fail('framing:' + b, c.line[:300], emitted[:200].hex(), None, f'C05: {b} (method {m})')
            for n, v in resp['headers']:
                if n.lower() not in SERVER_HEADER_NAMES and n.lower() not in STANDARD_RESPONSE_FIELDS:
                    res.fail('injected-header', c.line[:300], n, None, f'C05: header name {n!r} is not one the server emits: client text split or added a header line')
                if '\r' in v or '\n' in v:
                    res.fail('line-break-in-header', c.line[:300], v[:60], None, 'C05: header value contains a line break')
                if c.note and v.strip() == c.note:
                    res.fail('injected-header', c.line[:300], n + ': ' + v, None, f'C05: the header line {n}: {v} was written by the client, not by the server: client text added a header line')
        # delivery: unless the script fails a call, the peer must have received every byte
        if c.ws.startswith('e:'):
            continue
        if T.refuses(c.ws):
            # the peer stopped taking bytes: nothing can be delivered in full; what did arrive is the beginning of the response
            # (an endless retry or a panic was judged above: the harness ends a case that does not return)
            if not emitted.startswith(r['recv']) and not S.mask_ts(emitted).startswith(S.mask_ts(r['recv'])):
                res.fail('short-delivery', c.line[:120] + '…', f'peer received {len(r["recv"])} bytes that are not the beginning of the response', None,
                         f'C05: transport script {c.ws} stopped accepting bytes; what it had accepted is not a prefix of the response')
            continue
        if single or twin is None:
            delivered = r['recv'] == full
        else:
            delivered = c.ws == 'all' or S.mask_ts(r['recv']) == S.mask_ts(twin)
        if not delivered:
            more = len(r['recv']) > len(emitted) and r['recv'].startswith(emitted)
            res.fail('short-delivery', c.line[:120] + '…', f'peer received {len(r["recv"])} of {len(emitted)} bytes', None,
                     f'C05: {len(r["recv"]) - len(emitted)} bytes follow the complete response on the connection (a second answer)' if more else
                     f'C05: transport script {c.ws} accepted the response in pieces but only a part was delivered')
        if c.flush == 'e' and c.entry == 'proc' and head != 'err':
            res.fail('flush-error-ignored', c.line[:120], head, None, 'C05: flush failed but Server::process reported success')

def run(res, tier, seed):
    rng = C.Rng(seed)
    batches = build(rng, tier)
    results = run_groups([(None, batches)] + build_extra(rng, tier))
    judge(res, results)
    res.rule = ('requests: every hostile value (CR, LF, CRLF, NUL, VT, FF, NEL, LS, colons) on every echo site x methods; valid grammar-derived '
                'requests on both entry points; single mutations; short-write scripts: every chunk size 1..64 and a first-chunk boundary at every '
                '%s byte of the head, multi-chunk prefixes, write error at call 0/1/2, flush error; every write site (read error, unparsable, not origin form, '
                'failing handler, answer; both entry points) x transport scripts; methods x routes x entry points; ranges x GET/HEAD/OPTIONS x lookup steps; '
                'body sizes at digit and buffer boundaries; every handler branch; CR at every position of every reflected value (name spellings, repeats, '
                'position, unterminated, buffer cut at every byte); responses of exactly one power-of-two block; thousands of one-byte writes; configured CORS '
                'and request-buffer environments; distinct = (entry, request, script, handler, buffer)' % ('' if tier == 'thorough' else '7th'))
    for c, r, il, ml in results[:2]:
        res.sample({'entry': c.entry, 'request': c.raw[:100].decode('latin1'), 'script': c.ws, 'response_head': r['recv'][:40].decode('latin1')})
