"""C06 (pool part) — serving capacity survives any history of connections: no past job
permanently removes a worker.
Tie: histories of ok / handler-error / panicking jobs run on the REAL ThreadPool (fresh pool per
history), followed — on the same pool — by the rendezvous probe of N tasks blocking on a barrier of
N.  The recorded trace must be a run of the Lean model `Rws.Pool` (jobs that panic = `crash`
steps, op pooltrace) that ends drained with exactly the scripted panics recorded as failed.
Oracle on the implementation alone: every job body entered exactly once and the probe completes
(all N workers are still there) within 10 s.
The connection part (props/c06_socket.py) runs histories of real TCP connections against the real binary."""
from vlib import common as C
from props import pool_common as P
from vlib import gen_c06 as G

DRIVERS = ['Pool']   # model driver files this check runs: scopes translator failures to the tables they (and the proofs) import
TRUSTED = ['cfg(rws_verif) hooks in src/thread_pool/mod.rs (add-only)',
           'harness callback ordering (see harness/src/ops/pool.rs)',
           'std::sync::{Mutex, mpsc}, std::panic::catch_unwind semantics as modelled']
ASSUMPTIONS = ['a job outcome is ok / handler error / panic; stalls of a connection that is never closed keep their worker by design (DESIGN.md 6/C06)',
               'the OS scheduler is sampled, not enumerated']

def gen(rng, tier, labels=None):
    lines = []
    if labels is None: labels = {}
    def add(n, kinds, perturb): lines.append(P.scenario(n, kinds, rng.below(1 << 32), perturb))
    # regression cases of F12 first: N panicking jobs on an N-worker pool, then work must still run
    add(3, 'ppp' + 'iiiii', False)                 # the observed defect: 3 panics, 0 of 5 follow-ups ran
    for n in range(1, 9):
        add(n, 'p' * n + 'w' + 'b' * n, False)
        add(n, 'p' * (2 * n + 1) + 'b' * n, True)
    nprobe = len(lines)
    # shapes added by the generator audit (vlib/gen_c06.py): long jobs and waits inside the history, probes inside the history,
    # the history forced through one worker, hundreds of panics on one worker, one payload kind only, empty history, large pools
    for n, kinds, perturb, label in G.pool_shapes(rng, tier):
        add(n, kinds, perturb); labels[len(lines) - 1] = label
    total = len(lines) + (43 if tier == 'quick' else 1000)
    maxlen = 400
    while len(lines) < total:
        n = rng.range(1, 8)
        shape = rng.below(4)
        if shape == 0: length = rng.range(1, n + 2)
        elif shape == 1: length = rng.range(n + 1, 40)
        else: length = rng.range(n + 1, maxlen if (tier == 'thorough' or rng.chance(1, 3)) else 120)
        pp = rng.choice([1, 2, 5, 8, 10])          # panic density x/10
        hist = ''.join('p' if rng.below(10) < pp else rng.choice('ie') for _ in range(length))
        if rng.chance(1, 5): hist = hist[:-min(n, length)] + 'p' * min(n, length)   # ends with a burst of panics
        sep = 'w' if rng.chance(2, 3) else ''
        add(n, hist + sep + 'b' * n, rng.chance(1, 2))
    return lines, nprobe

def run(res, tier, seed):
    rng = C.Rng(seed ^ 0xC06)
    labels = {}
    lines, nprobe = gen(rng, tier, labels)
    impl = P.run_pool(lines[:nprobe], parallel=1)
    if not any('status=timeout' in x for x in impl):
        impl += P.run_pool(lines[nprobe:], batch=20)
    else:
        impl += ['skipped'] * (len(lines) - nprobe)
    answers = P.judge(res, 'C06', lines, impl)
    for k, (ln, out) in enumerate(zip(lines, impl)):
        if out == 'skipped': continue
        n, kinds = P.parse_scenario(ln)
        hist = kinds.rstrip('b').rstrip('w')
        if k in labels: res.count('pool shape: ' + labels[k].split(' (')[0])
        res.count(f'N={n}' if n <= 8 else 'N>8')
        res.count('history length ' + ('<=N' if len(hist) <= n else '<=40' if len(hist) <= 40 else '<=120' if len(hist) <= 120 else '<=400'))
        res.count('panics in history: ' + ('0' if 'p' not in hist else '<N' if hist.count('p') < n else '>=N'))
    _socket_part(res, tier, seed)
    res.rule = ('(a) one case = one history of ok/handler-error/long/panicking jobs and waits (length 0..400; also forced through one worker '
                'while the others block, with probes inside, hundreds of panics on one worker, one payload kind only) on a fresh real ThreadPool of '
                'N in 1..8 (and 12..32) workers followed by the rendezvous probe of N barrier tasks on the same pool; the recorded '
                'trace is replayed on the model; (b) histories of 1..400 real TCP connections (valid in several ways, fault-provoking, early close, RST before/after sending, '
                'half-sent at every place, oversized / exactly buffer-sized, stalls, segments, answers abandoned while written, bursts, held idle connections, accept() failing '
                'under a descriptor limit; the same kind > 16 times per worker) against the real binary with N in {1,2,3,4,8} workers, then the probe: N-1 idle connections + one '
                'request, then a table of valid requests compared with the answers of a fresh server; second audit pass (audit/C06/AUDIT2.md): 553 requests with the headers a new feature would read, '
                'keep-alive / Expect / chunked / upgrade conversations, variants of a request before or after the plain request for the same file, files that change, N requests at the same moment, '
                'slow readers, storms of 130..1030 equal connections (also under a descriptor limit), histories with stalled readers / idle / half-sent connections in the background; '
                'distinct = distinct (scenario, trace) pairs / histories')
    for k in (0, 1, len(lines) - 1):
        if impl[k] != 'skipped':
            res.sample({'scenario': lines[k][:120], 'implementation': impl[k][:200] + '…', 'model': answers.get(k)})

def _socket_part(res, tier, seed):
    from props import c06_socket
    c06_socket.run_part(res, C.Rng(seed ^ 0x50C), tier)

def replay(rp):
    case = rp.get('case') or (rp.get('correspondence') or {}).get('case')
    if isinstance(case, dict) and case.get('mode') == 'socket':
        # a history of connections: run it again on the real binary (the variants of the old kinds are drawn from a fixed seed)
        from props import c06_socket
        res = C.Result('C06')
        hs = dict(n=case['N'], hist=case['history'], alloc=case.get('alloc'), nofile=case.get('nofile'), args=case.get('args'), bg=case.get('background'),
                  bg_ms=case.get('background_ms', 0), label='replay')
        # how the probe and the requests after the history are made depends on the position of the history in the run: a recorded
        # position is used again (three times); without one, four positions are tried
        if case.get('position') is not None: hs['position'] = case['position']
        c06_socket.run_part(res, C.Rng(0x50C), 'quick', only=[hs] * (3 if 'position' in hs else 4))
        print('history         :', case)
        print('oracle failures :', len(res.failures))
        for f in res.failures[:3]: print('  failure:', f['sig'], '-', f['why'], '-', str(f['impl'])[:300])
        return 1 if res.failures else 0
    return P.replay('C06', rp, times=10)
