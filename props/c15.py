"""C15 — responses written by the library can be read back by it.
Correspondence: Response::generate_response / Response::generate / Response::parse and the
pieces the parser is built from (status line, header line, Content-Range value, multipart
body reader) on the real code vs Rws.Resp (Lean model).
Oracle on the implementation alone (written independently of the model): a strict Python
splitter of HTTP responses judges what the serialisers wrote, and the value `Response::parse`
reads back is compared field by field with the value that was written; the reject clauses
(unknown status, phrase that is not the registered one, missing opening boundary, missing
blank line after part headers, missing closing boundary, Content-Length that is not a number)
must give `err`, and nothing may panic."""
import os, re
from vlib import common as C
from vlib import gen_c15 as G

DRIVERS = ['ResponseM']   # model driver files this check runs: scopes translator failures to the tables they (and the proofs) import
TRUSTED = ['Rust std as modelled: read_until on a Cursor, String::from_utf8 (Rws.Utf8R.valid), str::trim / is_whitespace (White_Space list), '
           'to_uppercase / to_lowercase as far as a comparison with ASCII can observe (Rws.Utf8R.upperCmp/lowerCmp), split_once, replace, iN/usize parse, to_string',
           'model abstraction: total_bytes/bytes_read are Nat instead of i32 (inputs < 2 GiB); content_length value not carried (never read by the code)']
ASSUMPTIONS = ['protocol glue: hex fields; one-line renderings of Response/Request/ContentRange on both sides (RwsDriver.Common, harness proto.rs)',
               'the set of registered statuses and versions is the regenerated table (translator/gens/status.py)',
               'independent oracle: own Python HTTP response splitter + direct equality of the read-back value with the written one']

SEP = b'String_separator'
MPCT = 'multipart/byteranges; boundary=String_separator'
OCTET = 'application/octet-stream'
VERSIONS = ['HTTP/0.9', 'HTTP/1.0', 'HTTP/1.1', 'HTTP/2.0']
RESERVED = ('Content-Type', 'Content-Range', 'Content-Length')
PASS2 = os.environ.get('RWS_C15_PASS2', '1') != '0'      # 0: only the classes of the first audit pass (to show what the second pass adds)
# Unicode White_Space (what Rust's char::is_whitespace / str::trim use)
WS = set('\t\n\x0b\x0c\r \x85\xa0\u1680\u2000\u2001\u2002\u2003\u2004\u2005\u2006\u2007\u2008\u2009\u200a\u2028\u2029\u202f\u205f\u3000')


def load_table():
    p = os.path.join(C.LEAN, 'Rws', 'Gen', 'StatusTab.lean')
    txt = open(p, encoding='utf-8').read()
    m = re.search(r'def statusTableText[^\n]*:= \[(.*)\]\n', txt)
    return [(int(a), b) for a, b in re.findall(r'\((-?\d+), "([^"]*)"\)', m.group(1))]


# ------------------------------------------------------------------ protocol rendering
def hx(b): return C.hx(b)
def hdrs(hs): return ','.join(hx(n) + ':' + hx(v) for n, v in hs) if hs else '-'
def crs(ps): return '|'.join(';'.join([hx(u), str(s), str(e), hx(z), hx(ct), hx(b)]) for (u, s, e, z, ct, b) in ps) if ps else '-'
def resp_fields(r):
    return ' '.join([hx(r['version']), str(r['status']), hx(r['reason']), hdrs(r['headers']), crs(r['parts'])])
def req_fields(method): return ' '.join([hx(method), hx('/'), hx('HTTP/1.1'), '-', '-'])
def req_fields_full(q):
    method, uri, ver, hs, body = q
    return ' '.join([hx(method), hx(uri), hx(ver), hdrs(hs), hx(body)])

def parse_resp_fields(f):
    """`ok <version> <status> <reason> <headers> <parts>` -> dict (bytes fields)"""
    def un(s): return C.unhx(s)
    hs = [] if f[3] == '-' else [tuple(un(x) for x in h.split(':')) for h in f[3].split(',')]
    ps = []
    if f[4] != '-':
        for p in f[4].split('|'):
            u, s, e, z, ct, b = p.split(';')
            ps.append((un(u), int(s), int(e), un(z), un(ct), un(b)))
    return dict(version=un(f[0]), status=int(f[1]), reason=un(f[2]), headers=hs, parts=ps)

def enc(r):
    """the written value with every text field as bytes (to compare with parse_resp_fields)"""
    return dict(version=r['version'].encode(), status=r['status'], reason=r['reason'].encode(),
                headers=[(n.encode(), v.encode()) for n, v in r['headers']],
                parts=[(u.encode(), s, e, z.encode(), ct.encode(), b) for (u, s, e, z, ct, b) in r['parts']])


# ------------------------------------------------------------------ the input class of the round-trip claim
def is_utf8(b):
    try: b.decode('utf-8'); return True
    except UnicodeDecodeError: return False

def text_ok(s): return '\r' not in s and '\n' not in s
def trimmed(s): return s == '' or (s[0] not in WS and s[-1] not in WS)
def body_ok(b):
    """no line of body+CRLF (cut after every LF) is valid UTF-8 and contains the separator text"""
    for ln in (b + b'\r\n').split(b'\n'):
        if SEP in ln and is_utf8(ln): return False
    return True
def size_ok(s, e, z):
    return z.isascii() and z.isdigit() and str(int(z)) == z and s <= e <= int(z) < 2 ** 63

def wf(r, table):
    if r['version'] not in VERSIONS or (r['status'], r['reason']) not in table: return False
    for n, v in r['headers']:
        if not (text_ok(n) and text_ok(v) and ':' not in n and n not in RESERVED): return False
    ps = r['parts']
    if len(ps) == 0: return False
    for (u, s, e, z, ct, b) in ps:
        if u != 'bytes' or not size_ok(s, e, z) or not text_ok(ct): return False
    if len(ps) == 1:
        return not ps[0][4].startswith('multipart/byteranges')
    for (u, s, e, z, ct, b) in ps:
        if ct == '' or not trimmed(ct) or 'String_separator' in ct or not body_ok(b): return False
    return True


# ------------------------------------------------------------------ strict splitter (oracle for the serialisers)
def split_http(raw):
    """strict: head CRLF CRLF body; status line `V SP code SP reason`; header lines `name: value`"""
    i = raw.find(b'\r\n\r\n')
    if i < 0: return None
    head, body = raw[:i], raw[i + 4:]
    lines = head.split(b'\r\n')
    st = lines[0].split(b' ', 2)
    if len(st) != 3: return None
    hs = []
    for ln in lines[1:]:
        j = ln.find(b': ')
        if j < 0: return None
        hs.append((ln[:j], ln[j + 2:]))
    return st, hs, body

def split_byteranges(body, boundary):
    """the layout the library writes: (--B CRLF header lines CRLF CRLF bytes CRLF)+ --B"""
    dash = b'--' + boundary
    if not body.startswith(dash + b'\r\n') or not body.endswith(b'\r\n' + dash): return None
    inner = body[len(dash) + 2: len(body) - len(dash)]        # part (CRLF dash CRLF part)* CRLF
    chunks = inner[:-2].split(b'\r\n' + dash + b'\r\n')
    out = []
    for ch in chunks:
        k = ch.find(b'\r\n\r\n')
        if k < 0: return None
        hl = ch[:k].split(b'\r\n')
        out.append((hl, ch[k + 4:]))
    return out

def expect_framing(r):
    ps = r['parts']
    if len(ps) == 1:
        (u, s, e, z, ct, b) = ps[0]
        return [('Content-Type', ct), ('Content-Range', f'bytes {s}-{e}/{z}'), ('Content-Length', str(len(b)))]
    if len(ps) > 1: return [('Content-Type', MPCT)]
    return []


def judge_serialised(res, ln, a, r, method, inst, table):
    """oracle on what a serialiser wrote for a response of the claimed input class"""
    f = a.split(' ')
    raw = C.unhx(f[1])
    sp = split_http(raw)
    who = 'generate' if inst else 'generate_response'
    if sp is None:
        res.fail(who + ':not-http', ln, a[:120], None, 'serialisation is not head CRLF CRLF body with a 3-field status line and name: value lines'); return
    st, hs, body = sp
    R = enc(r)
    if st != [R['version'], str(r['status']).encode(), R['reason']]:
        res.fail(who + ':status-line', ln, a[:120], None, f'status line {st}'); return
    want = R['headers'] + [(n.encode(), v.encode()) for n, v in expect_framing(r)]
    if hs != want:
        if inst and len(r['parts']) == 1 and hs == [h for h in want if h[0] != b'Content-Type' or h in R['headers']]:
            res.fail('generate-drops-content-type', ln, a[:160], None,
                     'Response::generate() writes no Content-Type header for a single part (generate_response does)')
        else:
            res.fail(who + ':headers', ln, a[:160], None, f'headers written {hs[:6]} expected {want[:6]}')
        return
    if method in ('HEAD', 'OPTIONS') and not inst:
        if body != b'': res.fail(who + ':head-has-body', ln, a[:120], None, 'body written for HEAD/OPTIONS')
        return
    if len(r['parts']) == 1:
        if body != r['parts'][0][5]:
            res.fail(who + ':body', ln, a[:120], None, 'single body differs from the part bytes')
    else:
        # only split when no body contains the dash-boundary sequence itself (otherwise the strict splitter is ambiguous)
        if any(b'\r\n--' + SEP in (p[5] + b'\r\n') or p[5].startswith(b'--' + SEP) for p in r['parts']): return
        parts = split_byteranges(body, SEP)
        if parts is None or len(parts) != len(r['parts']):
            res.fail(who + ':multipart-layout', ln, a[:120], None, 'body is not (--B CRLF headers CRLF CRLF bytes CRLF)+ --B'); return
        for (hl, b), (u, s, e, z, ct, pb) in zip(parts, r['parts']):
            if b != pb or len(hl) != 2 or hl[0].split(b':', 1)[1].strip() != ct.encode() or \
               hl[1].split(b':', 1)[1].strip() != f'bytes {s}-{e}/{z}'.encode():
                res.fail(who + ':multipart-part', ln, a[:120], None, f'part written as {hl} + {len(b)} bytes'); return


def judge_roundtrip(res, ln, a, r, method, inst):
    """parse(serialise(r)) must be r plus the framing headers (r in the claimed input class)"""
    who = 'generate' if inst else 'generate_response'
    if not a.startswith('ok '):
        res.fail('roundtrip:' + who + ':not-ok', ln[:200], a, None, f'a response the library wrote is not read back: {a}'); return
    got = parse_resp_fields(a.split(' ')[1:])
    R = enc(r)
    want_h = R['headers'] + [(n.encode(), v.encode()) for n, v in expect_framing(r)]
    single = len(r['parts']) == 1
    if inst and single:
        want_h_inst = [h for h in want_h if h[0] != b'Content-Type']
        if got['headers'] == want_h_inst and R['parts'][0][4] != OCTET.encode() and \
           got['parts'] == [R['parts'][0][:4] + (OCTET.encode(),) + R['parts'][0][5:]] and \
           (got['version'], got['status'], got['reason']) == (R['version'], R['status'], R['reason']):
            res.fail('generate-drops-content-type', ln[:200], a[:160], None,
                     'content type written through Response::generate() reads back as application/octet-stream')
            return
        if got['headers'] == want_h_inst: want_h = want_h_inst      # content type was octet-stream: nothing lost
    for k in ('version', 'status', 'reason'):
        if got[k] != R[k]:
            res.fail('roundtrip:' + who + ':' + k, ln[:200], a[:160], None, f'{k} read back as {got[k]!r}, written {R[k]!r}'); return
    if got['headers'] != want_h:
        res.fail('roundtrip:' + who + ':headers', ln[:200], a[:160], None, f'headers read back {got["headers"][:6]}'); return
    if method in ('HEAD', 'OPTIONS') and not inst: return
    if len(got['parts']) != len(R['parts']):
        res.fail('roundtrip:' + who + ':part-count', ln[:200], a[:160], None, f'{len(R["parts"])} parts written, {len(got["parts"])} read back'); return
    names = ['unit', 'start', 'end', 'size', 'content type', 'body']
    for i, (g, w) in enumerate(zip(got['parts'], R['parts'])):
        for nm, x, y in zip(names, g, w):
            if x != y:
                res.fail('roundtrip:' + who + ':' + nm.replace(' ', '-'), ln[:200], a[:160], None,
                         f'part {i}: {nm} read back as {x!r:.80}, written {y!r:.80}'); return


# ------------------------------------------------------------------ generators
def gen_text(rng, allow_bad=False):
    k = rng.below(10)
    if k < 5: return ''.join(rng.choice('abcXYZ-_/.;= 09') for _ in range(rng.range(0, 12)))
    if k == 5: return rng.choice(['é', 'ü x', 'значение', '\u00a0pad\u3000', 'ſ ß ﬁ', '\u212a', 'a: b', 'a:b', ':', ' ', ''])
    if k == 6: return 'v' * rng.range(100, 3000)
    if k == 7 and allow_bad: return rng.choice(['a\rb', 'a\nb', 'a\r\nb', 'x String_separator y', 'Content-Type'])
    return rng.choice(['localhost', 'text/html', 'no-cache', 'bytes', '0', 'keep-alive'])

def gen_headers(rng, wf_only):
    n = rng.choice([0, 0, 1, 2, 3, 5, 40])
    hs = []
    for _ in range(n):
        k = rng.below(12)
        if k < 7 or wf_only:
            name = rng.choice(['Host', 'Accept-Ranges', 'X-Frame-Options', 'Date-Unix-Epoch-Nanos', 'Vary', 'x', '', 'A B', 'Content-type',
                               'content-length', 'Content-Language', 'Ünï', 'Content-Typ', 'Content-Type2', 'a\rb'[:1 if wf_only else 3]])
            val = gen_text(rng)
        elif k == 7: name, val = rng.choice(RESERVED), gen_text(rng)
        elif k == 8: name, val = 'Content-Length', rng.choice(['5', '+5', '-5', 'x', '', ' 5', '18446744073709551615', '18446744073709551616'])
        elif k == 9: name, val = rng.choice(['a:b', 'a: b', 'X:', ': ']), gen_text(rng)
        elif k == 10: name, val = 'X-Bad', gen_text(rng, True)
        else: name, val = 'Content-Type', rng.choice([MPCT, 'multipart/byteranges', 'multipart/byteranges; boundary=', 'text/plain'])
        hs.append((name, val))
    return hs

BODY_KINDS = ['empty', 'binary', 'text', 'ends-cr', 'ends-lf', 'ends-crlf', 'dashes', 'sep-in-nonutf8-line', 'sep-split', 'crlf-only',
              'big', 'sep-in-line', 'boundary-line']
def gen_body(rng, kind):
    if kind == 'empty': return b''
    if kind == 'binary': return rng.bytes(rng.range(1, 300))
    if kind == 'text': return ('line %d\r\n' % rng.below(99)).encode() * rng.range(1, 5) + b'tail'
    if kind == 'ends-cr': return rng.bytes(rng.range(0, 20)) + b'\r'
    if kind == 'ends-lf': return rng.bytes(rng.range(0, 20)) + b'\n'
    if kind == 'ends-crlf': return rng.bytes(rng.range(0, 20)) + rng.choice([b'\r\n', b'\r\n\r\n', b'\n\r'])
    if kind == 'dashes': return rng.choice([b'--', b'-', b'--String', b'--String_separato', b'a\r\n--\r\nb', b'--\r\n--', b'\r\n--String_separato\r\n',
                                            b'--string_separator', b'tring_separator--'])
    if kind == 'sep-in-nonutf8-line': return rng.choice([b'\xff--String_separator\r\nx', b'a\r\n\x80String_separator', b'String_separator\xc3'])
    if kind == 'sep-split': return rng.choice([b'String_\nseparator', b'--String_separato\nr', b'String_separato\r\nr'])
    if kind == 'crlf-only': return rng.choice([b'\r\n', b'\n', b'\r', b'\r\n\r\n', b'\n\n'])
    if kind == 'big': return rng.bytes(rng.range(2000, 9000))
    if kind == 'sep-in-line': return rng.choice([b'xxString_separatorxx', b'a\r\nString_separator', b'String_separator'])     # outside the claimed class
    if kind == 'boundary-line': return rng.choice([b'a\r\n--String_separator\r\nb', b'--String_separator', b'\r\n--String_separator\r\n'])  # outside
    raise ValueError(kind)

CTS_WF = ['text/plain', 'application/octet-stream', 'text/html; charset=utf-8', 'image/png', 'x', 'тип/é', 'multipart/form-data']
CTS_ODD = ['', ' text/plain', 'text/plain ', '\u00a0x', 'x\u3000', 'multipart/byteranges; boundary=zz', 'multipart/byteranges', 'a String_separator b', 'a\r\nb']

def gen_part(rng, wf_only, bodykind=None):
    kind = bodykind or rng.choice(BODY_KINDS[:11] if wf_only else BODY_KINDS)
    b = gen_body(rng, kind)
    ct = rng.choice(CTS_WF) if (wf_only or rng.chance(4, 5)) else rng.choice(CTS_ODD)
    k = rng.below(10)
    if k < 4 or (wf_only and k >= 8): s, e, z = 0, len(b), str(len(b))
    elif k < 8:
        n = rng.choice([len(b), 10, 1000, 2 ** 31, 2 ** 63 - 1]); e = rng.range(0, n); s = rng.range(0, e); z = str(n)
    elif k == 8: s, e, z = rng.choice([(5, 3, '10'), (0, 11, '10'), (0, 0, 'x'), (0, 0, ''), (0, 1, '007'), (0, 1, '+7'), (0, 1, '-7'),
                                         (0, 0, '9223372036854775808'), (2 ** 63, 2 ** 63, '9223372036854775807'), (0, 0, '*'), (0, 3, '3: q')])
    else: s, e, z = 2 ** 64 - 1, 2 ** 64 - 1, '18446744073709551615'
    unit = 'bytes' if (wf_only or rng.chance(9, 10)) else rng.choice(['', 'items', 'Bytes'])
    return (unit, s, e, z, ct, b), kind

def gen_resp(rng, table, wf_only, nparts=None, status=None):
    code, phrase = status or rng.choice(table)
    if not wf_only and rng.chance(1, 12):
        code, phrase = rng.choice([(code, phrase.lower()), (code, 'Nope'), (299, 'OK'), (-1, 'X'), (32767, ''), (code, phrase + ' '), (0, '')])
    ver = 'HTTP/1.1' if rng.chance(3, 4) else rng.choice(VERSIONS if wf_only else VERSIONS + ['http/1.1', 'HTTP/3', '', 'H T'])
    if nparts is None: nparts = rng.choice([1, 1, 1, 2, 2, 3, 4, 5, 6] + ([] if wf_only else [0]))
    parts, kinds = [], []
    for _ in range(nparts):
        p, k = gen_part(rng, wf_only); parts.append(p); kinds.append(k)
    return dict(version=ver, status=code, reason=phrase, headers=gen_headers(rng, wf_only), parts=parts), kinds


def utf8_probe_texts():
    """byte strings around every boundary of the UTF-8 grammar (valid and invalid)"""
    out = [b'', b'a', b'\x7f', b'\x80', b'\xbf', b'\xc0\x80', b'\xc1\xbf', b'\xc2\x80', b'\xc2\x7f', b'\xc2', b'\xdf\xbf', b'\xdf\xc0',
           b'\xe0\x9f\xbf', b'\xe0\xa0\x80', b'\xe0\xa0', b'\xe1\x80\x80', b'\xec\xbf\xbf', b'\xed\x9f\xbf', b'\xed\xa0\x80', b'\xed\xbf\xbf',
           b'\xee\x80\x80', b'\xef\xbf\xbf', b'\xef\xbf', b'\xf0\x8f\xbf\xbf', b'\xf0\x90\x80\x80', b'\xf0\x90\x80', b'\xf3\xbf\xbf\xbf',
           b'\xf4\x8f\xbf\xbf', b'\xf4\x90\x80\x80', b'\xf5\x80\x80\x80', b'\xf8\x88\x80\x80\x80', b'\xff', b'\xfe', b'a\xe2\x82\xacb', b'\xe2\x82',
           b'\xe2\x82\xac\x80', b'\xf0\x9f\x98\x80', b'\xf0\x9f\x98', b'\xe1\x80\xc0', b'\xf1\x80\x80\xc0', b'\xf1\x80\xc0\x80', b'\xf1\xc0\x80\x80']
    return out


def run(res, tier, seed):
    rng = C.Rng(seed)
    table = load_table()
    codes = {c for c, _ in table}
    quick = tier == 'quick'
    lines, meta = [], []

    def add(op, fields, m): lines.append(op + ' ' + fields); meta.append(m)
    def gen_both(r, kinds, method='GET', cls='wf', req=None):
        add('respgen', resp_fields(r) + ' ' + (req_fields_full(req) if req else req_fields(method)), ('gen', r, method, False, cls, kinds))
    def gen_inst(r, kinds, cls='wf'):
        add('respgeni', resp_fields(r), ('gen', r, 'GET', True, cls, kinds))

    REQS = G.request_variants()
    # 1. exhaustive: every registered status x {1, 2 parts} x both serialisers (+ HEAD, OPTIONS for the associated fn)
    for st in table:
        for n in (1, 2):
            r, kinds = gen_resp(rng, table, True, nparts=n, status=st)
            r['version'] = 'HTTP/1.1'
            gen_both(r, kinds); gen_inst(r, kinds)
            if n == 1:
                gen_both(r, kinds, 'HEAD'); gen_both(r, kinds, 'OPTIONS')
    # 2. every body kind in every part position (1..6 parts), claimed class
    for kind in BODY_KINDS[:11]:
        for n in (1, 2, 3, 6):
            for pos in range(n):
                r, kinds = gen_resp(rng, table, True, nparts=n)
                p, _ = gen_part(rng, True, kind)
                r['parts'][pos] = p; kinds[pos] = kind
                gen_both(r, kinds)
                if pos == 0: gen_inst(r, kinds)
    # 3. random responses of the claimed class, all versions, methods
    for i in range(700 if quick else 30000):
        r, kinds = gen_resp(rng, table, True)
        m = rng.choice(['GET', 'GET', 'GET', 'POST', 'HEAD', 'OPTIONS', 'get', 'head'])
        q = rng.choice(REQS) if rng.chance(1, 4) else None       # the other fields of the request answered: target, version, headers, body
        gen_both(r, kinds, m, req=(m,) + q[1:] if q else None)
        if rng.chance(1, 2): gen_inst(r, kinds)
    # 4. anything goes (outside the claimed class too): differential + no panic only
    for i in range(500 if quick else 20000):
        r, kinds = gen_resp(rng, table, False)
        cls = 'wf' if wf(r, table) else 'any'
        gen_both(r, kinds, rng.choice(['GET', 'HEAD', 'OPTIONS']), cls)
        if rng.chance(1, 2): gen_inst(r, kinds, cls)
    # 5. enumerated classes of the claimed class (vlib/gen_c15.py): what a draw from the small alphabets above reaches rarely or never
    PLAIN_CTS = ['text/plain', 'image/png', 'application/json', 'text/html; charset=utf-8', 'x', 'application/octet-stream']
    def small_parts(n, first=0):
        ps = []
        for i in range(n):
            b = rng.bytes(rng.range(1, 12)) if rng.chance(3, 4) else b'part %d\r\n' % i
            ps.append(('bytes', 0, len(b), str(len(b)), PLAIN_CTS[(first + i) % len(PLAIN_CTS)], b))
        return ps
    def mk(parts, headers=None, status=None, version='HTTP/1.1'):
        code, phrase = status or rng.choice(table)
        return dict(version=version, status=code, reason=phrase, headers=[('Host', 'localhost')] if headers is None else headers, parts=parts)
    def emit(r, label, method='GET', inst=True, req=None):
        cls = 'wf' if wf(r, table) else 'any'
        if cls != 'wf': res.count('enumerated case outside the claimed class (differential only): ' + label)
        gen_both(r, ['class ' + label.split(' ')[0]], method, cls, req)
        if inst: gen_inst(r, ['class ' + label.split(' ')[0]], cls)
    def head_len_without(hs):
        r = mk([('bytes', 0, 3, '3', 'text/plain', b'abc')], hs, status=(200, 'OK'))
        return len('HTTP/1.1 200 OK\r\n') + sum(len(n.encode()) + 2 + len(v.encode()) + 2 for n, v in hs + expect_framing(r)) + 2
    # 5a. header lists: blank / control characters around and inside names and values, relatives of the framing header names, repeats, counts,
    #     lengths around powers of two (value, name, line, whole head; multi-byte characters across them), the source's own header names
    for i, (label, hs) in enumerate(G.header_lists(rng, quick, head_len_without)):
        both_shapes = label.split(' ')[0] in ('edge-char', 'repeat', 'structural', 'unicode', 'reserved-relatives', 'empty', 'well-known')
        big = sum(len(n) + len(v) for n, v in hs) > 20000
        if label.startswith('head size'):
            emit(mk([('bytes', 0, 3, '3', 'text/plain', b'abc')], hs, status=(200, 'OK')), label, inst=False)
            emit(mk(small_parts(2), hs), label, inst=False)
            continue
        for n in ((1, 2) if both_shapes else (1 + i % 2,)):
            emit(mk(small_parts(n if n == 1 or i % 3 else 3, i), hs), label, inst=not big or i % 4 == 0)
    # 5b. content types: of a single body (blank around it, near-misses and other spellings of multipart/byteranges, boundary text, long, the source's media types)
    #     and of parts (separator characters, long, near-misses of the part header names), every part position
    for ct in G.single_content_types():
        b = rng.bytes(rng.range(0, 9))
        emit(mk([('bytes', 0, len(b), str(len(b)), ct, b)]), 'single-content-type', inst=False)
    pcts = G.part_content_types()
    for i in range(0, len(pcts), 1 if quick else 1):
        n = 2 + i % 3
        cts = [pcts[(i + j) % len(pcts)] for j in range(n)]
        ps = [p[:4] + (ct,) + p[5:] for p, ct in zip(small_parts(n), cts)]
        emit(mk(ps), 'part-content-type', inst=i % 2 == 0)
    for ct in pcts[:12]:
        emit(mk([p[:4] + (ct,) + p[5:] for p in small_parts(3)]), 'part-content-type all equal', inst=False)
    # 5c. ranges: every (start, end, size) with equalities among the three at and around the machine-integer limits, alone and in every part position
    trs = G.range_triples()
    for i, (s_, e_, z_) in enumerate(trs):
        b = rng.bytes(i % 5)
        emit(mk([('bytes', s_, e_, str(z_), 'text/plain', b)], status=[(206, 'Partial Content'), (200, 'OK'), None][i % 3]), 'range-limits', inst=i % 3 == 0)
    for i in range(0, len(trs), 2):
        n = 2 + (i // 2) % 3
        ps = [('bytes',) + trs[(i + j) % len(trs)][:2] + (str(trs[(i + j) % len(trs)][2]),) + p[4:] for j, p in enumerate(small_parts(n))]
        emit(mk(ps), 'range-limits', inst=i % 4 == 0)
    # 5d. part bodies: every literal in the first and the last position of two parts and in the middle of three; three literals together; as a single body
    pbs = G.part_bodies()
    def part_of(b, k=0): return ('bytes', 0, len(b), str(len(b)), PLAIN_CTS[k % len(PLAIN_CTS)], b)
    for i, (label, b) in enumerate(pbs):
        o = small_parts(2, i)
        emit(mk([part_of(b, i), o[0]]), 'body ' + label, inst=False)
        emit(mk([o[0], part_of(b, i)]), 'body ' + label, inst=False)
        emit(mk([o[0], part_of(b, i), o[1]]), 'body ' + label, inst=i % 3 == 0)
        emit(mk([part_of(pbs[(i + j) % len(pbs)][1], j) for j in range(3)]), 'body three literals', inst=i % 3 == 1)
        emit(mk([part_of(b, i)]), 'body ' + label, inst=i % 3 == 2)
    for label, b in G.single_only_bodies():
        for ct in ('text/plain', 'multipart/mixed; boundary=String_separator'):
            emit(mk([part_of(b)[:4] + (ct, b)]), 'body ' + label)
    for i, (label, b) in enumerate(G.big_bodies(rng, quick)):
        o = small_parts(2, i)
        emit(mk([part_of(b)]), 'body-size ' + label, inst=False)
        emit(mk([part_of(b), o[0]] if i % 2 else [o[0], part_of(b)]), 'body-size ' + label, inst=False)
        if not quick: emit(mk([o[0], part_of(b), o[1]]), 'body-size ' + label)
    # 5e. part lists: more than six parts, equal parts, equal ranges with different bytes, descending and overlapping ranges, all parts empty
    for n in G.part_counts(quick):
        emit(mk(small_parts(n)), 'part-count %d' % n, inst=n < 50)
    one = ('bytes', 2, 5, '10', 'text/plain', b'cde')
    for label, ps in [('equal x2', [one, one]), ('equal x3', [one] * 3), ('equal x6', [one] * 6), ('equal ends', [one, small_parts(1)[0], one]),
                      ('equal range', [one, one[:5] + (b'CDE',)]), ('equal body', [one, ('bytes', 5, 8, '10', 'text/plain', b'cde')]),
                      ('equal but type', [one, one[:4] + ('image/png', b'cde')]),
                      ('descending', [('bytes', 7, 9, '10', 'text/plain', b'hi'), ('bytes', 4, 6, '10', 'text/plain', b'ef'), ('bytes', 0, 2, '10', 'text/plain', b'ab')]),
                      ('overlapping', [('bytes', 0, 6, '10', 'text/plain', b'abcdef'), ('bytes', 3, 9, '10', 'text/plain', b'defghi'), ('bytes', 0, 10, '10', 'text/plain', b'abcdefghij')]),
                      ('adjacent', [('bytes', 0, 3, '10', 'text/plain', b'abc'), ('bytes', 3, 6, '10', 'text/plain', b'def'), ('bytes', 6, 10, '10', 'text/plain', b'ghij')]),
                      ('adjacent inclusive', [('bytes', 0, 2, '10', 'text/plain', b'abc'), ('bytes', 3, 5, '10', 'text/plain', b'def')]),
                      ('nested', [('bytes', 0, 10, '10', 'text/plain', b'abcdefghij'), ('bytes', 2, 4, '10', 'text/plain', b'cd')]),
                      ('sizes differ', [('bytes', 0, 2, '10', 'text/plain', b'ab'), ('bytes', 0, 2, '20', 'text/plain', b'ab'), ('bytes', 0, 2, '2', 'text/plain', b'ab')]),
                      ('all empty x2', [part_of(b'')] * 2), ('all empty x3', [part_of(b'', k) for k in range(3)]), ('all empty x6', [part_of(b'', k) for k in range(6)]),
                      ('empty between', [part_of(b'a'), part_of(b''), part_of(b''), part_of(b'b')]), ('all line breaks', [part_of(b'\r\n'), part_of(b'\r\n'), part_of(b'\n')])]:
        for st in ((206, 'Partial Content'), (200, 'OK')):
            emit(mk(ps, status=st), 'part-list ' + label)
    # 5f. the request answered: every method spelling next to HEAD / OPTIONS, and requests whose other fields (target, version, Range and other headers, body) vary
    for i, m in enumerate(G.METHODS):
        emit(mk(small_parts(1)), 'method', method=m, inst=False)
        emit(mk(small_parts(2 + i % 2)), 'method', method=m, inst=False)
    for i, q in enumerate(G.request_variants()):
        emit(mk(small_parts(1), status=[(200, 'OK'), (206, 'Partial Content')][i % 2]), 'request', method=q[0], inst=False, req=q)
        emit(mk(small_parts(2 + i % 2), status=[(206, 'Partial Content'), (200, 'OK')][i % 2]), 'request', method=q[0], inst=False, req=q)
    # 5g. every version x {1, 2, 3 parts} x both serialisers
    for v in VERSIONS:
        for n in (1, 2, 3):
            emit(mk(small_parts(n), version=v), 'version')

    # 6. second audit pass (vlib/gen_c15.py, lower half): relations inside the input and between two calls that a well-meant feature or clean-up would hinge on
    history = []
    if PASS2:
        # 6a. a multi-byte character across EVERY byte offset below 400 of a header value, a header name, a single content type, a part content type (first / last part)
        for label, t in G.every_offset_strings(quick):
            emit(mk(small_parts(1), [('X', t), ('Host', 'h')]), 'every-offset value')
            emit(mk(small_parts(2), [('Host', 'h'), ('X-Long', 'p' + t)]), 'every-offset value', inst=False)
            emit(mk(small_parts(1), [(t, 'v')]), 'every-offset name', inst=False)
            b = rng.bytes(5)
            emit(mk([('bytes', 0, 5, '5', t, b)]), 'every-offset single content type', inst=False)
            o = small_parts(2)
            emit(mk([o[0][:4] + (t,) + o[0][5:], o[1]]), 'every-offset part content type', inst=False)
            emit(mk([o[0], o[1][:4] + (t,) + o[1][5:]]), 'every-offset part content type')
        # 6b. ... and of a body (to 4 KiB and beyond: every chunk size), single and as the first / last part
        for i, (label, b) in enumerate(G.every_offset_bodies(quick)):
            o = small_parts(1, i)[0]
            emit(mk([part_of(b)[:4] + ('text/plain; charset=utf-8', b)]), 'every-offset body', inst=False)
            emit(mk([part_of(b), o] if i % 2 else [o, part_of(b)]), 'every-offset body', inst=False)
        # 6c. body lengths that are a multiple of a chunk size (and one off)
        for i, n in enumerate(G.chunk_multiple_sizes(quick)):
            b = rng.bytes(n)
            if i % 3 == 1: b = b.replace(b'\n', b'\x0b')           # one line
            emit(mk([part_of(b)]), 'chunk-multiple body', inst=i % 4 == 0)
            emit(mk([part_of(b), small_parts(1)[0]] if i % 2 else [small_parts(1)[0], part_of(b), part_of(b'')]), 'chunk-multiple body', inst=False)
        # 6d. characters that fold onto ASCII letters: content types next to multipart/byteranges and to the default type, method spellings next to HEAD / OPTIONS,
        #     header names and values that are equal only after folding / normalisation
        for ct in G.FOLD_SINGLE_CONTENT_TYPES:
            b = rng.bytes(rng.range(0, 9))
            emit(mk([('bytes', 0, len(b), str(len(b)), ct, b)]), 'fold single content type')
        for i, ct in enumerate(G.FOLD_PART_CONTENT_TYPES):
            ps = small_parts(2 + i % 2); k = i % len(ps)
            ps[k] = ps[k][:4] + (ct,) + ps[k][5:]
            emit(mk(ps), 'fold part content type', inst=i % 2 == 0)
        for i, m_ in enumerate(G.FOLD_METHODS):
            emit(mk(small_parts(1 + i % 3)), 'fold method', method=m_, inst=False)
        for i, (label, hs) in enumerate(G.folding_header_lists()):
            emit(mk(small_parts(1), hs), label); emit(mk(small_parts(2 + i % 2), hs), label, inst=False)
        # 6e. characters whose low byte is CR, LF, blank, ':', '-', '"', ';', '=', '/', NUL
        for i, (label, hs) in enumerate(G.low_byte_header_lists()):
            emit(mk(small_parts(1), hs), label); emit(mk(small_parts(2), hs), label, inst=False)
        lbs = G.low_byte_content_types()
        for i, ct in enumerate(lbs):
            emit(mk([('bytes', 0, 2, '2', ct, b'ab')]), 'low-byte single content type', inst=False)
            if i % 2 == 0:
                emit(mk([p_[:4] + (lbs[(i + j) % len(lbs)],) + p_[5:] for j, p_ in enumerate(small_parts(2 + i % 3))]), 'low-byte part content type', inst=False)
        # 6f. quoting, escaping, comment signs, trailing separators, parameters: header lists and content types
        for i, (label, hs) in enumerate(G.syntax_header_lists()):
            emit(mk(small_parts(1 + i % 2), hs), label, inst=i % 2 == 0)
        scts = G.syntax_content_types()
        for i, ct in enumerate(scts):
            emit(mk([('bytes', 0, 2, '2', ct, b'ab')]), 'syntax single content type', inst=False)
            if not trimmed(ct) or ct == '': continue
            ps = small_parts(2 + i % 2); k = i % len(ps)
            ps[k] = ps[k][:4] + (ct,) + ps[k][5:]
            emit(mk(ps), 'syntax part content type', inst=False)
        # 6g. end - start against the body length (equal, one less, one more, far off), size against the body length and against end; size below the body length
        rels = G.range_body_relations()
        for i, (L, s_, e_, z_) in enumerate(rels):
            b = bytes((65 + (i + j) % 26) for j in range(L))
            emit(mk([('bytes', s_, e_, str(z_), 'text/plain', b)], status=[(206, 'Partial Content'), (200, 'OK'), (416, 'Range Not Satisfiable')][i % 3]), 'range-body relation', inst=i % 3 == 0)
            if i % 2 == 0:
                L2, s2, e2, z2 = rels[(i * 7 + 3) % len(rels)]
                ps = [('bytes', s_, e_, str(z_), 'text/plain', b), ('bytes', s2, e2, str(z2), 'image/png', bytes(range(L2)))]
                emit(mk(ps if i % 4 else ps[::-1], status=[(206, 'Partial Content'), (200, 'OK')][(i // 2) % 2]), 'range-body relation', inst=i % 8 == 0)
        # 6h. every status x {whole body, proper slice, empty body with 0-0/0, empty body with a slice description, two slices, three parts with an empty one}
        for i, st_ in enumerate(table):
            shapes = [[('bytes', 0, 4, '4', 'text/plain', b'body')], [('bytes', 2, 5, '10', 'text/plain', b'cdef')], [('bytes', 0, 0, '0', 'text/plain', b'')],
                      [('bytes', 3, 7, '9', 'text/html', b'')], [('bytes', 0, 2, '10', 'text/plain', b'abc'), ('bytes', 4, 4, '10', 'text/plain', b'e')],
                      [('bytes', 0, 1, '1', 'text/plain', b'a'), ('bytes', 0, 0, '0', 'image/png', b''), ('bytes', 1, 1, '1', 'text/plain', b'\r\n')]]
            for j, ps in enumerate(shapes):
                emit(mk(ps, [('Host', 'localhost'), ('Accept-Ranges', 'bytes')][:1 + (i + j) % 2], status=st_), 'status x range-shape', inst=(i + j) % 2 == 0)
        # 6i. every version x headers a version-aware serialiser would treat specially x {1, 2, 3 parts}; every version x statuses with special body rules
        for v in VERSIONS:
            for n in (1, 2, 3):
                emit(mk(small_parts(n), list(G.WELL_KNOWN_PAIRS), version=v), 'version x well-known headers')
                emit(mk(small_parts(n), [('Connection', 'keep-alive'), ('Transfer-Encoding', 'chunked'), ('Host', 'h')][:n], version=v), 'version x well-known headers', inst=False)
            for st_ in [(100, 'Continue'), (101, 'Switching Protocols'), (204, 'No Content'), (205, 'Reset Content'), (206, 'Partial Content'), (304, 'Not Modified'), (416, 'Range Not Satisfiable')]:
                if st_ in table:
                    emit(mk(small_parts(1), status=st_, version=v), 'version x status'); emit(mk(small_parts(2), status=st_, version=v), 'version x status', inst=False)
        # 6j. HEAD / OPTIONS answered with several parts; a request whose Range header names (does not name) the range answered
        for m_ in ('HEAD', 'OPTIONS'):
            for n in (2, 3, 6):
                emit(mk(small_parts(n)), 'head-multipart', method=m_, inst=False)
        for rq in ['bytes=2-5', 'bytes=2-4', 'bytes=0-', 'bytes=2-5, 7-8', 'bytes=7-8, 2-5', 'bytes=-4']:
            q = ('GET', '/f', 'HTTP/1.1', [('Range', rq)], b'')
            emit(mk([('bytes', 2, 5, '10', 'text/plain', b'cdef')], status=(206, 'Partial Content')), 'request-range relation', inst=False, req=q)
            emit(mk([('bytes', 2, 5, '10', 'text/plain', b'cdef'), ('bytes', 7, 8, '10', 'text/plain', b'hi')], status=(206, 'Partial Content')), 'request-range relation', inst=False, req=q)
        # 6k. counts beyond a byte: 255 / 256 / 257 parts; 65 537 lines in one part
        for n in (255, 256, 257):
            emit(mk(small_parts(n)), 'part-count %d' % n, inst=False)
        if not quick:
            emit(mk([small_parts(1)[0], part_of(b'\n' * 65537)]), 'body-size 65537 lines', inst=False)
        # 6l. second use: a handful of responses written (and, below, read) in an order in which a longer, a shorter, a related and a failing call precede each other
        long6 = [part_of(('part %d ' % k_).encode() * (20 + k_) + b'\r\n', k_) for k_ in range(6)]
        hr = [mk(long6, [('Host', 'localhost'), ('X-Trace', 't' * 200)], status=(206, 'Partial Content')),
              mk([part_of(b'ab')], [('Host', 'localhost')], status=(200, 'OK')),
              mk([part_of(b'x', 1), part_of(b'', 2)], [], status=(206, 'Partial Content')),
              mk(long6, [('Host', 'localhost'), ('X-Trace', 't' * 200)], status=(206, 'Partial Content'), version='HTTP/1.0'),
              mk([part_of(b'ab' * 300)], [('Host', 'localhost')], status=(200, 'OK')),
              mk(long6[:5], [('Host', 'localhost'), ('X-Trace', 't' * 200)], status=(206, 'Partial Content'))]
        for step in G.history_plan():
            if step == 'E':
                emit(mk([], [('Host', 'x')]), 'history (no parts)', inst=False)     # outside the claimed class: differential only
            else:
                history.append((len(lines), step, hr[step]))
                emit(hr[step], 'history', inst=step % 2 == 0)

    # regression inputs of the repaired defects and the open one
    f19 = dict(version='HTTP/1.1', status=206, reason='Partial Content', headers=[('Host', 'localhost')],
               parts=[('bytes', 2, 5, '10', 'text/plain', b'cdef')])
    gen_both(f19, ['regression-F19']); gen_inst(f19, ['witness-F18'])

    n_gen = len(lines)
    impl, model = C.run_both(lines)
    C.compare(res, lines, impl, model, 'Response::generate_response / Response::generate')

    # ---- phase 2: read back what the implementation wrote; corrupt it; direct ops
    lines2, meta2 = [], []
    def add2(op, fields, m): lines2.append(op + ' ' + fields); meta2.append(m)
    valid_serialisations = []     # (raw bytes, r) of wf GET responses through generate_response
    for ln, m, a in zip(lines, meta, impl):
        _, r, method, inst, cls, kinds = m
        res.count(('instance' if inst else 'associated') + ' ' + method.upper() + ' parts=' + str(min(len(r['parts']), 3)) + ('+' if len(r['parts']) > 3 else '') + ' ' + cls)
        for k in kinds: res.count(k if k.startswith('class ') else 'body ' + k)
        if a.startswith('panic') or a.startswith('abort'):
            res.fail('panic:' + a.split(' ', 1)[1], ln[:300], a, None, 'a serialiser panicked'); continue
        if not a.startswith('ok '): continue
        if cls == 'wf' and wf(r, table):
            judge_serialised(res, ln[:300], a, r, method.upper() if method in ('HEAD', 'OPTIONS') else method, inst, table)
            if inst:
                # the instance serialiser must write what the associated one writes for GET, and leave self alone
                f = a.split(' ')
                after = parse_resp_fields(f[2:7])
                if after != enc(r):
                    R = enc(r)
                    pushed = dict(R, headers=R['headers'] + [(b'Content-Type', R['parts'][0][4])])
                    if len(r['parts']) == 1 and after == pushed:
                        res.fail('generate-drops-content-type', ln[:300], a[:160], None, 'Response::generate() changed self (pushed Content-Type onto it)')
                    else:
                        res.fail('generate:self-changed', ln[:300], a[:160], None, 'Response::generate() changed self in another way than the known Content-Type push')
        raw = C.unhx(a.split(' ')[1])
        add2('respparse', hx(raw), ('rt', r, method, inst, cls))
        if cls == 'wf' and not inst and method == 'GET' and wf(r, table) and len(raw) < 1500:
            valid_serialisations.append((raw, r))

    # corruptions of valid serialisations
    rng2 = rng.fork('corrupt')
    rng2.shuffle(valid_serialisations)
    singles = [x for x in valid_serialisations if len(x[1]['parts']) == 1][:40 if quick else 400]
    multis = [x for x in valid_serialisations if len(x[1]['parts']) > 1][:40 if quick else 400]
    def corrupt(raw, r):
        head_end = raw.find(b'\r\n')
        sl = raw[:head_end].split(b' ', 2)
        rest = raw[head_end:]
        other = rng2.choice([p for c, p in table if p.upper() != r['reason'].upper()])
        for code in ['299', '000', '99999', '-200', '2000', '20', '', '600', '32768', '199', '512', 'abc', '2 00', str(r['status']) + '0', '1' + str(r['status'])]:
            add2('respparse', hx(b' '.join([sl[0], code.encode(), sl[2]]) + rest), ('status', code))
        for c2, p2 in [rng2.choice(table) for _ in range(3)] + [table[(table.index((r['status'], r['reason'])) + 1) % len(table)]]:
            if p2.upper() != r['reason'].upper():
                add2('respparse', hx(b' '.join([sl[0], str(c2).encode(), sl[2]]) + rest), ('phrase', f'code {c2} of another row under the phrase {r["reason"]}'))
        add2('respparse', hx(b' '.join([sl[0], b'+' + sl[1], sl[2]]) + rest), ('same', r))
        add2('respparse', hx(b' '.join([sl[0], b'0' + sl[1], sl[2]]) + rest), ('same-nocheck', r))
        for ph in [other, r['reason'] + 'x', 'x' + r['reason'], '', r['reason'][:-1], r['reason'] + ' ', r['reason'].replace(' ', '  ') + '!', 'ok']:
            mism = ph.upper() != r['reason'].upper()
            add2('respparse', hx(b' '.join([sl[0], sl[1], ph.encode()]) + rest), ('phrase' if mism else 'same-nocheck', ph))
        for ph in [r['reason'].lower(), r['reason'].upper(), r['reason'].replace('s', 'ſ'), r['reason'].replace('ss', 'ß'), r['reason'].replace('fi', 'ﬁ'),
                   r['reason'].replace('i', 'ı'), r['reason'].replace('K', '\u212a')]:
            add2('respparse', hx(b' '.join([sl[0], sl[1], ph.encode()]) + rest), ('same-nocheck' if ph.upper() == r['reason'].upper() else 'phrase', ph))
        for v in [b'HTTP/1.2', b'HTTP', b'', b'HTTP/3', b'HTTP/1.1 ', b'\xc5\xbfTTP/1.1', b'http/1.1', b'Http/1.0', b'HTTP/2.0', b'HTTP/0.9']:
            add2('respparse', hx(b' '.join([v, sl[1], sl[2]]) + rest), ('version', v))
        # dropped CR / dropped blank line / truncations / Content-Length junk
        idxs = [i for i in range(len(raw) - 1) if raw[i:i + 2] == b'\r\n']
        for i in idxs[:8]:
            add2('respparse', hx(raw[:i] + raw[i + 1:]), ('nocheck', 'dropped-cr'))
            add2('respparse', hx(raw[:i + 1] + raw[i + 2:]), ('nocheck', 'dropped-lf'))
        be = raw.find(b'\r\n\r\n')
        add2('respparse', hx(raw[:be] + raw[be + 2:]), ('nocheck', 'dropped-blank-line'))
        for cl in ['x', '', '-1', '1e3', ' 4', '4 ', '99999999999999999999', '18446744073709551616', '0x10', '４']:
            if b'\r\nContent-Length: ' in raw[:be + 2]:      # the framing header itself: a line of the head, not a value or a body that mentions it
                j = raw.find(b'\r\nContent-Length: ') + 18; k = raw.find(b'\r\n', j)
                add2('respparse', hx(raw[:j] + cl.encode() + raw[k:]), ('content-length', cl))
            else:
                add2('respparse', hx(raw[:be] + b'\r\nContent-Length: ' + cl.encode() + raw[be:]), ('content-length', cl))
        if PASS2:
            # a declared length that is a legal number but not the length of what follows (0, one less, one more, far beyond any allocation): differential, and nothing may panic or abort
            nb = len(raw) - be - 4
            for cl in ['0', str(max(nb - 1, 0)), str(nb + 1), '2147483647', '2147483648', '4294967296', '1000000000000', '9223372036854775807', '9223372036854775808', '18446744073709551615',
                       '00000000000000000000004', '+0']:
                if b'\r\nContent-Length: ' in raw[:be + 2]:
                    j = raw.find(b'\r\nContent-Length: ') + 18; k = raw.find(b'\r\n', j)
                    add2('respparse', hx(raw[:j] + cl.encode() + raw[k:]), ('nocheck', 'declared length differs from the body'))
                else:
                    add2('respparse', hx(raw[:be] + b'\r\nContent-Length: ' + cl.encode() + raw[be:]), ('nocheck', 'declared length differs from the body'))
        step = 1 if len(raw) < 200 else 7
        for i in range(0, len(raw), step):
            add2('respparse', hx(raw[:i]), ('nocheck', 'truncated'))
        for _ in range(6):
            i = rng2.below(len(raw)); b = bytearray(raw); b[i] = rng2.choice([0, 10, 13, 32, 45, 58, 0x80, 0xff, b[i] ^ 0x20])
            add2('respparse', hx(bytes(b)), ('nocheck', 'byte-flip'))
    def corrupt_multi(raw, r):
        be = raw.find(b'\r\n\r\n') + 4
        head, body = raw[:be], raw[be:]
        first = body.find(b'\r\n')
        # missing / mistyped opening boundary
        for ob in [b'--String_separato', b'--string_separator', b'', b'----', b'X', b'--Strin_gseparator', b'--String-separator']:
            add2('respparse', hx(head + ob + body[first:]), ('no-opening-boundary', ob))
        add2('respparse', hx(head + body[first + 2:]), ('no-opening-boundary', b'(line removed)'))
        # missing blank line after the part headers of part k (the line that follows must then be blank for the reader to go on)
        pos, k = 0, 0
        while True:
            j = body.find(b'\r\n\r\n', pos)
            if j < 0: break
            ls = body.rfind(b'\r\n', 0, j) + 2
            if body[ls:j].startswith(b'Content-Range:  bytes '):
                nxt = body[j + 4:].split(b'\n')[0]
                blank = is_utf8(nxt) and all(ch in WS for ch in nxt.decode('utf-8'))
                add2('respparse', hx(head + body[:j + 2] + body[j + 4:]), ('nocheck', 'no-blank-line-but-blank-body-line') if blank else ('no-blank-line', k))
                k += 1
            pos = j + 2
        # missing closing boundary
        add2('respparse', hx(raw[:len(raw) - len(SEP) - 2]), ('no-closing-boundary', 0))
        add2('respparse', hx(raw[:len(raw) - 1]), ('no-closing-boundary', 1))
        add2('respparse', hx(raw[:len(raw) - len(SEP)] + b'string_separator'), ('no-closing-boundary', 2))
        # a part without its Content-Range line, or without its Content-Type line (the first part: its head is at a known place,
        # whatever the bodies hold): a broken multipart structure, reported as an error since the repair of F74
        mh = re.match(rb'--String_separator\r\n(Content-Type:  [^\r\n]*\r\n)(Content-Range:  bytes [^\r\n]*\r\n)\r\n', body)
        if mh:
            add2('respparse', hx(head + body[:mh.start(2)] + body[mh.end(2):]), ('no-part-header', b'Content-Range line of the first part removed'))
            add2('respparse', hx(head + body[:mh.start(1)] + body[mh.end(1):]), ('no-part-header', b'Content-Type line of the first part removed'))
            add2('respparse', hx(head + body[:mh.start(1)] + body[mh.start(2):mh.end(2)] + body[mh.start(1):mh.end(1)] + body[mh.end(2):]), ('nocheck', 'part-header lines swapped'))
            add2('respparse', hx(head + body[:mh.start(1)] + body[mh.end(2):]), ('nocheck', 'both part-header lines removed'))
        # part header damage: differential + no panic
        for old, new in [(b'Content-Range:  bytes', b'Content-Range'), (b'Content-Range:  bytes', b'Content-Range:bytes'), (b'Content-Range:  ', b'Content-Range: \xe2\x80\x83'),
                         (b'Content-Range:  bytes', b'Content-Range: BYTES'), (b'Content-Type:  ', b'Content-Type'), (b'Content-Type:  ', b'Content-Type:'),
                         (b'Content-Type:  ', b'content-type: '), (b'Content-Range:  bytes', b'Content-Range:  items'), (b'\r\nContent-Range', b'\r\nX: y\r\nContent-Range'),
                         (b'--String_separator\r\nContent-Type', b'--String_separator--\r\nContent-Type'), (b'-', b'+'), (b'/', b'|')]:
            if old in body:
                add2('respparse', hx(head + body.replace(old, new, 1)), ('nocheck', 'part-header'))
                add2('respparse', hx(head + body.replace(old, new)), ('nocheck', 'part-header'))
        # other boundary in the Content-Type header
        fr = b'\r\nContent-Type: ' + MPCT.encode() + b'\r\n'      # the framing header itself (the last header line), not a value or a body that mentions it
        kf = head.rfind(fr)
        def declared(nb): return raw[:kf] + b'\r\nContent-Type: multipart/byteranges; boundary=' + nb + b'\r\n' + raw[kf + len(fr):]
        for nb in [b'', b'String', b'separator', b'"String_separator"', b'String_separator; charset=utf-8', b'"String_separator', b'String_separator"']:
            add2('respparse', hx(declared(nb)), ('nocheck', 'boundary-param'))
        # a declared boundary that the opening line does not contain: the opening boundary is missing
        for nb in [b'zz', b'String_separatorX', b'xString_separator', b'STRING_SEPARATOR', b'string_separator', b'String_separator_', b'"zz"', b'String-separator', b'---String_separator']:
            add2('respparse', hx(declared(nb)), ('no-opening-boundary', b'declared boundary ' + nb))
    for raw, r in singles: corrupt(raw, r)
    for raw, r in multis:
        corrupt(raw, r); corrupt_multi(raw, r)
    # regression: the three repaired defects
    add2('respparse', hx(b'HTTP/1.1 200 OK\r\nContent-Length: x\r\n\r\n'), ('content-length', 'x'))
    add2('respparse', hx(b'HTTP/1.1 206 Partial Content\r\nContent-Type: ' + MPCT.encode() + b'\r\n\r\n--String_separator\r\nContent-Type: text/plain\r\nContent-Range\r\n\r\nabc\r\n--String_separator'),
         ('must-err', 'Content-Range part line without separator'))

    # status-line op: every registered status in several spellings, unknown codes, i16 edge
    def st(text, m): add2('respstatus', hx(text), m)
    for c, p in table:
        for v in (['HTTP/1.1'] if quick else VERSIONS):
            st(f'{v} {c} {p}\r\n', ('st-ok', (v, c, p)))
        st(f'HTTP/1.1 {c} {p.upper()}', ('st-ok', ('HTTP/1.1', c, p.upper())))
        st(f'http/1.0 {c} {p.lower()}\n', ('st-ok', ('http/1.0', c, p.lower())))
        st(f'HTTP/1.1 {c} {p}x\r\n', ('st-err', 'phrase'))
        st(f'HTTP/1.1 {c}  {p}\r\n', ('st-err', 'phrase'))
        st(f'HTTP/1.1 {c + 1000} {p}\r\n', ('st-err', 'status'))
        for wrap in (65536, -65536, 131072, 4294967296, -4294967296, 256 * 256 * 256):
            st(f'HTTP/1.1 {c + wrap} {p}\r\n', ('st-err', 'status'))
        st(f'HTTP/1.1 {c}\r\n', ('st-err', 'fields'))
        c2, p2 = table[(table.index((c, p)) + 1) % len(table)]
        if p2.upper() != p.upper():
            st(f'HTTP/1.1 {c} {p2}\r\n', ('st-err', 'phrase'))          # phrase of the next row
            st(f'HTTP/1.1 {c2} {p}\r\n', ('st-err', 'phrase'))          # code of the next row
        if p:
            st(f'HTTP/1.1 {c} {p[:-1]}\r\n', ('st-err', 'phrase'))
            st(f'HTTP/1.1 {c} {p[1:]}\r\n', ('st-err', 'phrase'))
            st(f'HTTP/1.1 {c} \r\n', ('st-err', 'phrase'))
            st(f'HTTP/1.1 {c} {p} \r\n', ('st-err', 'phrase'))
            st(f'HTTP/1.1 {c} {p} {p}\r\n', ('st-err', 'phrase'))
        st(f'HTTP/1.1 {c} {p.replace("s", "ſ").replace("i", "ı")}\r\n', ('st-nocheck', 0))
    for c in list(range(-5, 700)) + [32767, 32768, -32768, -32769, 65536 + 200, 99999]:
        if c not in codes: st(f'HTTP/1.1 {c} OK\r\n', ('st-err', 'status'))
    for t in ['', ' ', '  ', 'HTTP/1.1', 'HTTP/1.1 ', 'HTTP/1.1 200', 'HTTP/1.1 200 ', ' 200 OK', 'HTTP/1.1  200 OK', 'HTTP/1.1 200 OK\r\n\r\n', 'HTTP/1.1\r 200\n OK',
              'HTTP/1.1 +200 OK', 'HTTP/1.1 0200 OK', 'HTTP/1.1 ２００ OK', 'ſTTP/1.1 200 OK', 'HTTP/1.1 200 O\u212a', 'HTTP/1.1 102 Proceßing', 'HTTP/1.1 304 Not Modiﬁed',
              'HTTP/1.1 304 Not Modi\ufb01ed', 'HTTP/1.1 414 URI Too Long', 'HTTP/1.1 414 urı too long', 'HTTP/1.1 418 I\'m a teapot', 'HTTP/1.1\t200\tOK']:
        st(t, ('st-nocheck', 0))
    for b in utf8_probe_texts():
        add2('respstatus', hx(b'HTTP/1.1 200 OK ' + b), ('utf8', b))
        add2('resphdr', hx(b'X: ' + b + b'\r\n'), ('utf8', b))
    # header-line op
    for t in ['Host: localhost\r\n', 'Host:localhost', 'Host', '', ': ', ': x', 'a: b: c\r\n', 'a:: b', 'a : b', 'a: \r\n', 'a:  b \r\n', 'a: b\rc\nd\r\n', 'ä: ö\r\n', 'a:\tb']:
        add2('resphdr', hx(t), ('nocheck', 'hdr'))
    for _ in range(200 if quick else 5000):
        add2('resphdr', hx(''.join(rng2.choice(['a', ':', ' ', ': ', '\r', '\n', 'é', 'B']) for _ in range(rng2.range(0, 10)))), ('nocheck', 'hdr'))
    # Content-Range value op
    def crv(t): add2('respcr', hx(t), ('cr', t))
    for t in ['bytes 0-4/10', ' bytes 0-4/10 ', 'BYTES 0-4/10', 'bytes 0-4/4', 'bytes 4-4/4', 'bytes 5-4/10', 'bytes 0-11/10', 'bytes 11-11/10', 'bytes 0-4/*', 'bytes */10',
              'bytes 0-4', 'bytes 0/10', 'bytes0-4/10', 'bytes  0-4/10', 'bytes 0 -4/10', 'bytes +0-+4/+10', 'bytes -0-4/10', 'bytes 0--4/10', 'bytes 0-4/-10', 'bytes 00-04/010',
              'bytes 0-9223372036854775807/9223372036854775807', 'bytes 0-9223372036854775808/9223372036854775808', 'bytes 0-4/99999999999999999999', 'items 0-4/10', 'bytes',
              '', ' ', 'bytes 0-4/10 x', '\u00a0bytes 0-4/10\u3000', 'bytes\u00a00-4/10', 'b\u212ates 0-4/10', 'bytes 0-4/1\u212a', 'bytes 0-4/10: q', 'bytes 0-4/1０', 'bytes 0-4/10\t',
              '\tbytes 0-4/10\x0b\x0c', '\x1cbytes 0-4/10', 'bytes 0-4/10\x1f', 'bytes\t0-4/10', 'bytes 0\u20134/10', 'bytes 0-4⁄10', 'BYTES\u2003 0-4/10']:
        crv(t)
    for _ in range(300 if quick else 8000):
        crv(''.join(rng2.choice(['bytes', ' ', '-', '/', '0', '1', '9', '+', 'B', '\u00a0', '10', '']) for _ in range(rng2.range(0, 9))))
    # multipart reader op on its own (fresh cursor): generated bodies + mutations, several boundaries
    def mp(body, bnd): add2('respmp', hx(body) + ' ' + hx(bnd), ('nocheck', 'mp'))
    P = b'--String_separator\r\nContent-Type:  text/plain\r\nContent-Range:  bytes 0-3/3\r\n\r\n'
    for body in [b'', b'\r\n', P + b'abc\r\n--String_separator', P + b'abc\r\n--String_separator\r\n', P + b'abc\r\n--String_separator--\r\n', P * 2, P + P + b'x\r\n--String_separator',
                 b'\r\n\r\n' + P + b'abc\r\n--String_separator', b' \t\r\n' + P + b'abc\r\n--String_separator', b'\xc2\xa0\r\n' + P + b'abc\r\n--String_separator',
                 b'junk\r\n' + P + b'abc\r\n--String_separator', P + b'abc', P + b'abc\r\n', P + b'\xff\xfe\r\n--String_separator', P + b'abc\xff', P + b'abc\r\n--String_separator\xff',
                 b'\xff' + P, P.replace(b'text/plain', b'\xff'), P.replace(b'0-3/3', b'0-\xff/3'), P.replace(b'\r\n\r\n', b'\r\n\xff\r\n'),
                 b'Content-Type: a\r\nContent-Range: bytes 0-1/1\r\n\r\nx\r\n--String_separator', b'Content-Range: bytes 0-1/1\r\n\r\nx\r\n--String_separator',
                 b'--String_separator\r\nContent-Range: bytes 0-1/1\r\n\r\nx\r\n--String_separator', b'--String_separator\r\nContent-Type: a\r\n\r\nx\r\n--String_separator',
                 b'--String_separator\r\nContent-Type: a\r\nContent-Range: bytes 0-1/1\r\nx\r\n--String_separator', b'--String_separator', b'--String_separator\r\n',
                 b'--String_separator\r\nContent-Type: a\r\nContent-Range: bytes 0-1/1\r\n\r\n--String_separator', b'--String_separator\r\nContent-Type: a\r\nContent-Range: bytes 0-1/1\r\n\r\n\r\n--String_separator',
                 b'--String_separator\r\nContent-Type: a\r\nContent-Range: bytes 0-1/1\r\n\r\nx--String_separator']:
        for bnd in [SEP, b'', b'zz', b'--String_separator', b'tring', b'\r\n', b'String_separator\r\n']:
            mp(body, bnd)
    for raw, r in multis[:20 if quick else 200]:
        body = raw[raw.find(b'\r\n\r\n') + 4:]
        mp(body, SEP)
        for _ in range(4):
            i = rng2.below(max(1, len(body))); b = bytearray(body)
            if b: b[i] = rng2.choice([10, 13, 45, 0xff, 32])
            mp(bytes(b), SEP)
            mp(body[:i], SEP)

    if PASS2:
        # second audit pass. The head of EVERY part damaged (not only of the first): a part without its Content-Range or its Content-Type line is a broken multipart structure
        def py_body(ps, drop=None):
            out = b''
            for k_, (u, s_, e_, z_, ct, b) in enumerate(ps):
                out += (b'\r\n' if k_ else b'') + b'--' + SEP + b'\r\n'
                if drop != (k_, 'ct'): out += b'Content-Type:  ' + ct.encode() + b'\r\n'
                if drop != (k_, 'cr'): out += f'Content-Range:  bytes {s_}-{e_}/{z_}\r\n'.encode()
                out += b'\r\n' + b
            return out + b'\r\n--' + SEP
        for raw, r in multis:
            be = raw.find(b'\r\n\r\n') + 4
            if raw[be:] != py_body(r['parts']): continue          # judged by the serialiser clause
            for k_ in range(len(r['parts'])):
                add2('respparse', hx(raw[:be] + py_body(r['parts'], (k_, 'cr'))), ('no-part-header', b'Content-Range line of part %d of %d removed' % (k_, len(r['parts']))))
                add2('respparse', hx(raw[:be] + py_body(r['parts'], (k_, 'ct'))), ('no-part-header', b'Content-Type line of part %d of %d removed' % (k_, len(r['parts']))))
        # a multi-byte character across every byte offset of the texts an error path handles (a message or log line capped at a byte offset)
        MPH = b'HTTP/1.1 206 Partial Content\r\nContent-Type: ' + MPCT.encode() + b'\r\n\r\n'
        good = b'--String_separator\r\nContent-Type:  text/plain\r\nContent-Range:  bytes 0-3/3\r\n\r\nabc\r\n'
        for label, t in G.every_offset_strings(quick):
            tb = t.encode()
            add2('resphdr', hx(tb), ('nocheck', 'every-offset: header line without separator'))
            add2('resphdr', hx(tb + b'\r\n'), ('nocheck', 'every-offset: header line without separator'))
            add2('respparse', hx(b'HTTP/1.1 200 OK\r\n' + tb + b'\r\n\r\nab'), ('nocheck', 'every-offset: header line without separator'))
            add2('respparse', hx(b'HTTP/1.1 200 OK\r\nHost: h\r\n' + tb + b':' + tb + b'\r\nContent-Type: text/plain\r\n\r\nab'), ('nocheck', 'every-offset: header line without separator'))
            add2('respparse', hx(b'HTTP/1.1 200 OK\r\nContent-Length: ' + tb + b'\r\n\r\nab'), ('content-length', t[:20] + '…'))
            add2('respparse', hx(b'HTTP/1.1 200 OK\r\nContent-Type: text/plain\r\nContent-Range: bytes 0-2/' + tb + b'\r\nContent-Length: 2\r\n\r\nab'), ('nocheck', 'every-offset: Content-Range value'))
            add2('respparse', hx(b'HTTP/1.1 200 ' + tb + b'\r\n\r\n'), ('phrase', t[:20] + '…'))
            add2('respparse', hx(b'HTTP/1.1 ' + tb + b' OK\r\n\r\n'), ('status', t[:20] + '…'))
            add2('respparse', hx(tb + b' 200 OK\r\n\r\n'), ('version', tb))
            st('HTTP/1.1 200 ' + t, ('st-err', 'phrase')); st('HTTP/1.1 ' + t + ' OK\r\n', ('st-err', 'status')); st(t + ' 200 OK\r\n', ('st-nocheck', 0)); st(t, ('st-err', 'fields'))
            crv(t); crv('bytes 0-4/' + t); crv('bytes ' + t + '-4/10'); crv(t + ' 0-4/10')
            add2('respparse', hx(MPH + tb + b'\r\n' + good + b'--String_separator'), ('no-opening-boundary', tb[:20]))
            add2('respparse', hx(MPH + good + b'--String_separator\r\nContent-Type:  text/plain\r\nContent-Range:  bytes 0-3/' + tb + b'\r\n\r\nabc\r\n--String_separator'), ('nocheck', 'every-offset: part Content-Range value'))
            add2('respparse', hx(MPH + good + b'--String_separator\r\nContent-Type:  text/plain\r\nContent-Range:  bytes 0-3/3\r\n' + tb + b'\r\nabc\r\n--String_separator'), ('no-blank-line', 'every-offset'))
            add2('respparse', hx(MPH + good + b'--String_separator\r\nContent-Type' + tb + b'\r\nContent-Range:  bytes 0-3/3\r\n\r\nabc\r\n--String_separator'), ('nocheck', 'every-offset: part header line without separator'))
            add2('respparse', hx(MPH + good + b'--String_separator\r\nContent-Type:  text/plain\r\nContent-Range:  bytes 0-3/3\r\n\r\n' + tb), ('no-closing-boundary', 'every-offset'))
            mp(good.replace(b'0-3/3', tb) + b'--String_separator', SEP); mp(tb + b'\r\n' + good, SEP); mp(good + b'--String_separator', tb)
        for code in ['２００', '٢٠٠', '2００', '200​', '２00']:
            add2('respparse', hx(b'HTTP/1.1 ' + code.encode() + b' OK\r\nContent-Type: text/plain\r\n\r\nab'), ('nocheck', 'status digits of another script'))
        # second use: the responses of the history plan read back in the planned order, a failing input between them
        hraw = {}
        for idx, step, r_ in history:
            if impl[idx].startswith('ok '): hraw[step] = C.unhx(impl[idx].split(' ')[1])
        if len(hraw) == 6:
            fails = [(hraw[0][:len(hraw[0]) - 5], ('no-closing-boundary', 'history')), (hraw[1].replace(b' 200 OK', b' 200 Okay', 1), ('phrase', 'history')),
                     (hraw[2].replace(b'\r\n\r\n--String', b'\r\n\r\n--Strin', 1), ('no-opening-boundary', b'history')), (hraw[0].replace(b' 206 ', b' 299 ', 1), ('status', '299'))]
            nf = 0
            for step in G.history_plan():
                if step == 'E':
                    add2('respparse', hx(fails[nf % 4][0]), fails[nf % 4][1]); nf += 1
                else:
                    add2('respparse', hx(hraw[step]), ('same', hr[step]))

    impl2, model2 = C.run_both(lines2)
    C.compare(res, lines2, impl2, model2, 'Response::parse and its parts')
    n_rt = 0
    for ln, m, a in zip(lines2, meta2, impl2):
        kind = m[0]
        if a.startswith('panic') or a.startswith('abort'):
            res.fail('panic:' + a.split(' ', 1)[1], ln[:400], a, None, 'a response-parsing entry point panicked'); continue
        if kind == 'rt':
            _, r, method, inst, cls = m
            if cls == 'wf' and wf(r, table):
                n_rt += 1
                res.count('roundtrip checked (' + ('generate' if inst else 'generate_response') + ')')
                judge_roundtrip(res, ln, a, r, method.upper() if method in ('HEAD', 'OPTIONS') else method, inst)
            else:
                res.count('read back outside the claimed class (differential only)')
        elif kind in ('status', 'phrase', 'no-opening-boundary', 'no-blank-line', 'no-closing-boundary', 'no-part-header', 'content-length', 'must-err', 'version'):
            res.count('corruption ' + kind)
            if kind == 'version':
                ok_v = m[1].decode('utf-8', 'replace').upper() in VERSIONS
                if (not ok_v) and a != 'err': res.fail('accepts:version', ln[:300], a[:120], None, f'version {m[1]!r} accepted')
                continue
            if kind == 'status' and re.fullmatch(r'[+-]?[0-9]+', m[1]) and int(m[1]) in codes: continue
            if kind == 'content-length' and re.fullmatch(r'\+?[0-9]+', m[1]) and int(m[1]) < 2 ** 64: continue
            if a != 'err':
                res.fail('accepts:' + kind, ln[:300], a[:120], None, f'corruption {kind} ({m[1]!r}) of a valid serialisation is not reported as an error')
        elif kind == 'same':
            res.count('harmless variation')
            judge_roundtrip(res, ln, a, m[1], 'GET', False)
        elif kind == 'st-ok':
            res.count('status line registered')
            v, c, p = m[1]
            if a != f'ok {hx(v)} {c} {hx(p)}': res.fail('status-line:rejects-registered', ln, a, None, f'expected ok {v} {c} {p}')
        elif kind == 'st-err':
            res.count('status line ' + m[1])
            if a != 'err': res.fail('status-line:accepts-' + m[1], ln, a, None, 'status line with unknown status / wrong phrase / missing field accepted')
        elif kind == 'utf8':
            res.count('utf8 probe')
            want_bad = not is_utf8(m[1])
            if (a == 'badutf8') != want_bad: res.fail('harness:utf8', ln, a, None, 'UTF-8 classification differs from CPython')
        elif kind == 'cr':
            res.count('content-range value')
            t = m[1].strip(''.join(WS))
            mm = re.fullmatch(r'[bB][yY][tT][eE][sS] ([+]?[0-9]+)-([+-]?[0-9]+)/([+-]?[0-9]+)', t)
            okv = None
            if mm and all(ch.isascii() for ch in t):
                s, e, z = int(mm.group(1)), int(mm.group(2)), int(mm.group(3))
                if max(abs(s), abs(e), abs(z)) < 2 ** 63 and s <= e <= z: okv = f'ok {s} {e} {z}'
            if okv and a != okv: res.fail('content-range:rejects-valid', ln, a, None, f'expected {okv}')
            if not okv and a != 'err': res.fail('content-range:accepts-invalid', ln, a, None, 'invalid Content-Range value accepted')
        else:
            res.count('differential only: ' + (str(m[1]) if kind == 'nocheck' else kind))

    res.rule = ('serialise: every registered status (%d) x {1, 2 parts} x both serialisers (+HEAD/OPTIONS) exhaustively; every body kind (%s) in every part position '
                'of 1/2/3/6-part responses; random responses of the claimed class (header lists of 0..40 headers, 1..6 parts, 4 versions, 8 method spellings) '
                'and unrestricted ones, a quarter of them answering requests whose target, version, headers and body vary; enumerated classes (vlib/gen_c15.py): header lists '
                '(blank and control characters around and inside names and values, relatives of the three framing header names with hostile values, repeated headers, 41..257 headers, '
                'value / name / line / head lengths around 256..65536 with multi-byte characters across them, every header name the source mentions, well-known name-value pairs), '
                'content types (blank around a single one, other spellings and near-misses of multipart/byteranges, separator and boundary text, long, the source\'s media types, in every part position), '
                'ranges at the machine-integer limits with every equality among start, end and size, part bodies (every length 0..4 over the reader\'s special bytes, every prefix and suffix and respelling '
                'of the boundary text, boundary text in lines that are not UTF-8, bodies that look like part heads / responses / other multipart bodies, blank lines, trailing and leading blanks, NUL, BOM, '
                'sizes 8191..65537, one long line, thousands of lines) in the first, last and a middle position and as single bodies, bodies containing the boundary line as single bodies, 7..100 parts, '
                'equal / adjacent / overlapping / descending / all-empty part lists, 24 method spellings, request variants, every version x 1..3 parts; second pass: a multi-byte character across every byte offset '
                'below 400 of header values, header names, content types and (to 4 KiB) bodies, and of every text an error path handles; body lengths at multiples of 512..16384; content types, methods, header names and values equal only after '
                'case folding or normalisation; characters whose low byte is CR / LF / blank / a separator; quoting, escaping, comment and trailing-separator shapes; end - start and size against the body length; every status x 6 range shapes; '
                'every version x special headers and statuses; 255..257 parts; the head of EVERY part damaged; a declared length that is not the body length; a planned history of long / short / related / failing calls; read back: every serialisation the implementation produced; corruptions: status digits, phrase, version, dropped CR/LF, '
                'dropped blank line, Content-Length junk, every/7th truncation, byte flips, opening/closing boundary typos, a declared boundary the opening line does not hold, the code of another row under the phrase, missing blank line per part, part-header damage; '
                'direct ops: status line (all statuses x spellings, all codes -5..700), header line, Content-Range value, multipart reader with 7 boundaries, UTF-8 grammar probes; '
                'a case is non-trivial when the response has at least one part or the parsed text is non-empty' % (len(table), ', '.join(BODY_KINDS[:11])))
    res.exhaustive = 'all %d registered statuses x {1,2 parts} x {generate_response GET/HEAD/OPTIONS, generate}; status-line op for all %d statuses and all codes -5..700' % (len(table), len(table))
    res.extra['roundtrips_checked'] = n_rt
    k = next(i for i, m in enumerate(meta) if len(m[1]['parts']) == 2)
    res.sample({'op': lines[k][:200] + '…', 'implementation': impl[k][:120] + '…', 'model': model[k][:120] + '…'})
    k = next(i for i, m in enumerate(meta2) if m[0] == 'rt' and len(m[1]['parts']) == 2)
    res.sample({'op': lines2[k][:120] + '…', 'implementation': impl2[k][:200] + '…', 'model': model2[k][:200] + '…'})
    k = next(i for i, m in enumerate(meta2) if m[0] == 'no-blank-line')
    res.sample({'op': lines2[k][:160] + '…', 'corruption': 'blank line after part headers removed', 'implementation': impl2[k], 'model': model2[k]})
    k = next(i for i, m in enumerate(meta2) if m[0] == 'cr')
    res.sample({'op': lines2[k], 'text': meta2[k][1], 'implementation': impl2[k], 'model': model2[k]})
