"""C18 — Base64 conforms to RFC 4648 and round-trips.
Correspondence: Base64::encode / Base64::decode (real code) vs Rws.Base64 (Lean model);
oracle on the implementation alone: Python's base64 module + the property's reject rule."""
import base64, itertools
from vlib import common as C
from vlib import gen_c18 as G

ALPHABET = 'ABCDEFGHIJKLMNOPQRSTUVWXYZabcdefghijklmnopqrstuvwxyz0123456789+/'
DRIVERS = ['Base64']   # model driver files this check runs: scopes translator failures to the tables they (and the proofs) import
TRUSTED = ['Rust std: char::as u8 truncation, String::from_utf8, str::chars, str::len (modelled in Rws.Prim/Rws.Base64)',
           'model abstraction: a decode chunk holding a byte >= 0x80 is answered Err without modelling from_utf8 of the truncated bytes (see Rws/Base64.lean header)']
ASSUMPTIONS = ['protocol glue: hex fields, UTF-8 decoding of the text field by Lean String.fromUTF8? and Rust String::from_utf8',
               'independent oracle: CPython base64.b64encode']

def has_bad(text):
    return any((ch not in ALPHABET) and ch != '=' for ch in text)

def run(res, tier, seed):
    rng = C.Rng(seed)
    lines, meta = [], []   # meta: (kind, payload)
    # decoding is quadratic in the real code: in quick, of the inputs above 10 000 bytes only those of 2^k + 1, 3 * 2^k + 1 and 65 536 bytes
    # are decoded again
    def again(n): return n > 2 and not (tier == 'quick' and n > 10000 and n not in (12289, 16385, 24577, 32769, 49153, 65536))
    def enc(b):
        lines.append('b64enc ' + C.hx(b)); meta.append(('enc', b))
        # decode(encode(x)) = x, asked in the same run: the reference text of x decodes to x (the encoder's own answer is compared
        # with the reference text below; where it differs, it is decoded in a second run)
        if again(len(b)): dec(G.b64(b), 'roundtrip')
    def dec(t, origin=None): lines.append('b64dec ' + C.hx(t.encode('utf-8'))); meta.append(('dec', (t, origin)))

    # 1. exhaustive: every input of length 0..2; length 3 through the block op (below)
    enc(b'')
    for a in range(256): enc(bytes([a]))
    for a in range(256):
        for b in range(256): enc(bytes([a, b]))
    # 2. random byte strings, every length residue, up to 64 KiB
    sizes = list(range(3, 40)) + [255, 256, 257, 1023, 1024, 1025, 8191, 8192, 8193, 65534, 65535, 65536]
    nrand = 300 if tier == 'quick' else 4000
    for i in range(nrand):
        n = rng.choice(sizes) if rng.chance(1, 3) else rng.range(0, 200)
        if tier == 'quick' and n > 9000 and i % 10: n = n % 300
        enc(rng.bytes(n))
    # 2b. low-entropy inputs: constant fills, every string of length 4..8 over a three-byte alphabet holding 0, periodic strings whose
    #     tail repeats (part of) an earlier group - an encoder that remembers or shares work between groups is only wrong on such inputs
    for fill in (0, 0xff, 0x4d, 0x41):
        for n in range(3, 50): enc(bytes([fill]) * n)
    for alpha in ((0, 0x4d, 0xff), (0, 1, 0x61)):
        for n in range(4, 9 if tier == 'quick' else 10):
            for tup in itertools.product(alpha, repeat=n): enc(bytes(tup))
    for i in range(400 if tier == 'quick' else 6000):
        g = [rng.bytes(3) for _ in range(rng.range(1, 4))]
        if rng.chance(1, 2): g[0] = bytes([0]) * rng.range(1, 2) + g[0][:2]; g[0] = g[0][:3]
        body = b''.join(rng.choice(g) for _ in range(rng.range(1, 12)))
        src = rng.choice(g)
        tail = rng.choice([src[:1], src[:2], src[1:], src[2:], src[1:2], b''])
        enc(body + tail)
    # 2c. enumerated encoder classes (vlib/gen_c18.py, audit of the generator): one input of every length at which an index, a group
    #     count, an output length or a block size changes representation - with the three lengths ending at 64 KiB in BOTH tiers -,
    #     ramps, the alphabet spelled out, long runs of one byte / one group / two groups, inputs whose groups are related
    rng2 = C.Rng(seed).fork('c18-audit')
    for n in G.enc_sizes(tier):
        enc(rng2.bytes(n))
        if tier != 'quick' or n < 3000: enc(bytes([rng2.below(256)]) + bytes(n - 1)); enc(bytes([0xff]) * n)
    for cls, b in G.enc_structured(rng2, tier): enc(b)
    # 2d. second audit pass (vlib/gen_c18.py, /tmp/a/C18/AUDIT2.md): EVERY length 0..1000 and k * B + r around the multiples of 40 block
    #     sizes (a block loop with a remainder); 7-bit input and its neighbours with exactly one byte >= 0x80 (in the tail group, the
    #     first group, at the end) - what a fast path for the common shape would hinge on
    rng3 = C.Rng(seed).fork('c18-audit2')
    for n in G.enc_sizes2(tier, G.enc_sizes(tier)): enc(rng3.bytes(n))
    for cls, b in G.enc_ascii(rng3, tier): enc(b)
    # 3. decoder: valid texts, every single-character corruption, padding shapes
    valid = []
    for n in list(range(0, 10)) + [31, 32, 33]:
        valid.append(base64.b64encode(rng.bytes(n)).decode())
    repl = [chr(c) for c in range(0, 128) if chr(c) not in ALPHABET] + \
           ['é', 'Ł', '€', '\U0001F600', 'Ã', '©', 'A', '=']
    for t in valid:
        dec(t, 'valid')
        for pos in range(len(t)):
            rs = repl if (tier == 'thorough' or len(t) <= 12) else [rng.choice(repl) for _ in range(6)]
            for r in rs:
                dec(t[:pos] + r + t[pos+1:], 'corrupt')
            dec(t[:pos] + t[pos+1:], 'delete')
            dec(t[:pos] + rng.choice(repl) + t[pos:], 'insert')
    pad_alpha = 'AQz/=='
    for n in range(0, 6 if tier == 'quick' else 7):
        for tup in itertools.product('Az=!', repeat=n):
            dec(''.join(tup), 'shape')
    for i in range(500 if tier == 'quick' else 20000):
        n = rng.range(0, 24)
        dec(''.join(rng.choice(ALPHABET + '====é!\n ') for _ in range(n)), 'random')
    # 3b. the reference text of EVERY input of 1 and 2 bytes decodes to that input ('xx==' and 'xxx=' have their own branch in the
    #     decoder; the round trip asked by enc() starts at 3 bytes)
    for a in range(256): dec(G.b64(bytes([a])), 'valid')
    for a in range(256):
        for b in range(256): dec(G.b64(bytes([a, b])), 'valid')
    # 3c. enumerated decoder classes (vlib/gen_c18.py): bad characters alone; every character U+0080..U+01FF and wider characters
    #     whose low bits spell an alphabet character, '=', '-' or '_', one and several per text; blanks before, after and inside
    #     valid text, wrapped lines, armour, text after the padding, URL-safe texts, two bad characters, a bad character far inside
    #     a long text; quartets with unused bits set (compared with the model only)
    for cls, t in G.dec_texts(rng2, tier, valid):
        dec(t, 'valid' if cls.startswith('valid') else cls)
    for t in G.noncanonical(rng2, tier): dec(t, 'unused-bits')
    # 3d. second audit pass: texts whose BYTE length is a multiple of 4 with a multi-byte character inside (every 2-byte character at
    #     every alignment; characters all of whose UTF-8 bytes spell alphabet characters once the top bit is dropped), a multi-byte
    #     character across every byte offset 1..135 (alone, and at a distance from an ASCII bad character), a bad character at
    #     window-relative places of texts of 16 k + r characters, text that went through another encoding layer (%3D, '+' as blank,
    #     \/ ...), twin quartets, a bad character at and beyond a length limit
    for cls, t in G.dec_texts2(rng3, tier):
        dec(t, 'valid' if cls.startswith('valid') else cls)
    # 4. length-3 block op: all 256 third bytes for a given (a, b)
    pairs = [(a, b) for a in range(256) for b in range(256)]
    if tier == 'quick':
        rng.shuffle(pairs); pairs = pairs[:512]
        drawn = set(pairs)
        pairs += [p for p in G.x3_pairs() if p not in drawn]
    x3_lines = ['b64x3 ' + bytes([a, b]).hex() for a, b in pairs]
    x3_meta = [('x3', p) for p in pairs]
    # order only: the costly lines (block ops, long texts) are dealt evenly over the list, which the runner cuts into contiguous shards
    heavy = [i for i, ln in enumerate(lines) if G.cost(ln) > 4e-4]
    hs = set(heavy)
    order = G.spread([('l', i) for i in range(len(lines)) if i not in hs],
                     [(('x', j), G.cost(x3_lines[j])) for j in range(len(x3_lines))] + [(('l', i), G.cost(lines[i])) for i in heavy], C.NCPU)
    lines = [(lines[i] if k == 'l' else x3_lines[i]) for k, i in order] + x3_lines[-1:]
    meta = [(meta[i] if k == 'l' else x3_meta[i]) for k, i in order] + x3_meta[-1:]

    # 5. histories (second audit pass): ONE ordered list run by ONE process on each side - the same text twice, two texts that share
    #    all but one group / differ only in case / are prefixes of each other, long after short, a valid text after one that failed
    #    half way, 'xy==' / 'xyA=' / 'xyAA' in every order, more distinct texts than a small table holds and then the same again.
    #    Every answer is judged by the same clauses as above; what an earlier call leaves behind shows in a later answer.
    hist = G.history(C.Rng(seed).fork('c18-history'), tier)
    h_lines = [('b64enc ' + C.hx(it[1])) if it[0] == 'enc' else ('b64dec ' + C.hx(it[1].encode('utf-8'))) for it in hist]
    h_meta = [('enc', it[1]) if it[0] == 'enc' else ('dec', (it[1], it[2])) for it in hist]
    h_out = {}
    import threading
    th = [threading.Thread(target=lambda: h_out.__setitem__('i', C.run_impl(h_lines, shards=1))),
          threading.Thread(target=lambda: h_out.__setitem__('m', C.run_model(h_lines, shards=1)))]
    for t_ in th: t_.start()
    impl, model = C.run_both(lines)
    for t_ in th: t_.join()
    res.rule = ('encode: exhaustive over all byte strings of length 0..2 (65 793) plus %s 2-byte prefixes x all 256 third '
                'bytes through the block op b64x3, plus random strings of every length residue up to 64 KiB, constant fills, all strings of length 4..8 over two three-byte alphabets containing 0 and periodic strings whose tail repeats part of an earlier group; decode: valid '
                'texts, every single-character corruption/deletion/insertion, all strings of length<=%d over {A,z,=,!}, random '
                'strings; enumerated classes (vlib/gen_c18.py): encode - one input of every length 2^k-1..2^k+1 and 3*2^k-1..3*2^k+1 up to 64 KiB '
                '(65 534, 65 535 and 65 536 bytes in both tiers), 765..771 bytes, ramps, the alphabet spelled out, long runs of one byte / one '
                'group / two groups, a group followed by a small change of it and a tail taken from either; decode - the reference text of '
                'every 1- and 2-byte input, bad characters alone and in partial chunks, every character U+0080..U+01FF at every place of a '
                'quartet of each padding form, 2-/3-/4-byte characters whose low bits spell an alphabet character or = - _ (one and several '
                'per text), blanks and blank sequences before / after / inside valid text, wrapped lines, armour, text after the padding, '
                'URL-safe texts, two bad characters, one bad character far inside texts of 348..5464 characters, all xy== quartets; '
                'second audit pass (relations inside the input and between calls): encode - every length 0..1000 and k * B + r (r = -2..2, k = 1..4; 1..2 from 1000 bytes on) for '
                '40 block sizes B up to 10 002 bytes, 7-bit input of every length 1..130 and its neighbours with exactly one byte >= 0x80 (last byte, '
                'tail group, first group); decode - every character U+0080..U+07FF at every byte alignment of texts whose BYTE length is a multiple '
                'of 4, characters all of whose UTF-8 bytes spell alphabet characters without the top bit, Unicode digits, a multi-byte character '
                'across every byte offset 1..135 (alone and at a distance from an ASCII bad character), bad characters at window-relative places of '
                'texts of 16 k + r characters, percent- / backslash- / entity-encoded and commented forms of valid text, twin quartets, a bad '
                'character at and beyond 1000 / 1024 / 2048 / 4096 characters; histories: one ordered list of about 12 000 calls run by ONE process '
                '(the same text twice and then broken, texts sharing all but one group / differing only in case / prefixes of each other, long after '
                'short, the empty input in between, a valid text after one that failed half way, xy== / xyA= / xyAA in every order, 300 texts and then '
                'the same again); '
                'a case is non-trivial when its input is non-empty; distinct = distinct protocol lines'
                % ('all 65 536' if tier == 'thorough' else '512 sampled + 496 chosen (both bytes on mask boundaries; a = b)', 5 if tier == 'quick' else 6))
    res.exhaustive = ('all inputs of length 0..3 bytes (16 843 009) for encode and decode(encode)' if tier == 'thorough'
                      else 'all inputs of length 0..2 bytes (65 793) for encode and for decode of the reference text')
    C.compare(res, lines, impl, model, 'Base64', nontrivial=lambda ln, a: not ln.endswith(' -'))
    C.compare(res, h_lines, h_out['i'], h_out['m'], 'Base64', nontrivial=lambda ln, a: not ln.endswith(' -'))
    n_main = len(lines)
    for k, (ln, (kind, pl), a) in enumerate(zip(lines + h_lines, meta + h_meta, impl + h_out['i'])):
        if k >= n_main: res.count('history')
        if a.startswith('panic') or a.startswith('abort'):
            res.fail('panic:' + a.split(' ', 1)[1], ln, a, None, 'a Base64 entry point panicked')
            continue
        if kind == 'enc':
            want = 'ok ' + C.hx(base64.b64encode(pl))
            res.count('enc len%3=' + str(len(pl) % 3))
            if a != want:
                res.fail('encode-not-rfc4648', ln, a, None, f'expected {want}')
        elif kind == 'x3':
            a0, b0 = pl
            encs = b''.join(base64.b64encode(bytes([a0, b0, c])) for c in range(256))
            decs = b''.join(bytes([a0, b0, c]) for c in range(256))
            want = f'ok {encs.hex()} {decs.hex()}'
            res.count('enc block of 256 (len 3)')
            res.evaluations += 255
            if a != want:
                res.fail('encode3-or-roundtrip', ln, a[:80], None, 'block of 256 three-byte inputs: encode != RFC 4648 or decode(encode(x)) != x')
        else:
            t, origin = pl
            res.count('dec ' + origin + (' bad-char' if has_bad(t) else ''))
            if has_bad(t):
                if a != 'err':
                    res.fail('decode-accepts-bad-char', ln, a, None, f'text {t!r} has a character outside the alphabet but decode returned {a}')
            elif origin in ('valid', 'roundtrip'):
                want = 'ok ' + C.hx(base64.b64decode(t, validate=True))
                if a != want:
                    res.fail('roundtrip', ln, a[:200], None, f'expected {want[:200]}')
            elif t.count('=') >= 3 and len(t) == 4 and a != 'err':
                res.fail('decode-accepts-overpadded', ln, a, None, 'quartet with three or more = accepted')
    # also: decode(encode(x)) through the implementation alone, where the encoder's answer is not the reference text decoded above
    rt_lines, rt_want = [], []
    for (kind, pl), a in zip(meta + h_meta, impl + h_out['i']):
        if kind == 'enc' and a.startswith('ok') and again(len(pl)) and a != 'ok ' + C.hx(base64.b64encode(pl)):
            rt_lines.append('b64dec ' + a[3:]); rt_want.append('ok ' + C.hx(pl))
    order = G.spread([], [(i, G.cost(ln)) for i, ln in enumerate(rt_lines)], C.NCPU)
    rt_lines = [rt_lines[i] for i in order]; rt_want = [rt_want[i] for i in order]
    i2, m2 = C.run_both(rt_lines)
    C.compare(res, rt_lines, i2, m2, 'Base64')
    for ln, a, w in zip(rt_lines, i2, rt_want):
        res.count('roundtrip of a wrong encoding')
        if a != w:
            res.fail('roundtrip', ln[:120], a[:80], None, 'decode(encode(x)) != x')
    k = next(i for i, m in enumerate(meta) if m[0] == 'enc' and len(m[1]) == 2 and m[1][0] == 1)
    res.sample({'op': lines[k], 'implementation': impl[k], 'model': model[k]})
    res.sample({'op': lines[-1][:20], 'implementation': impl[-1][:60] + '…', 'model': model[-1][:60] + '…'})
    k = next(i for i, m in enumerate(meta) if m[0] == 'dec' and m[1][1] == 'corrupt')
    res.sample({'op': lines[k], 'text': meta[k][1][0], 'implementation': impl[k], 'model': model[k]})
