"""C04 — every connection is answered; no input can crash the server.
Campaign: grammar-based mutation of valid requests on both entry points over generated trees,
handlers that fail, read errors.  Oracle (implementation only): no panic/abort, exactly one
complete well-framed response, error status for requests that cannot be parsed or served.
The input classes added by the generator audit live in vlib/gen_c04.py (own batches, own trees, other
configurations); when the scripted stream refuses bytes (failed write, zero-length accept, failed flush)
the connection is broken and only the no-panic clause is judged.
Second audit pass (AUDIT2.md): `X.feature_batches` / `X.feature_config_batches` / `X.repeat_batches` (compared with the model) and
`X.history_batches` (oracle only: the tree is rebuilt between two requests of one process); the harness processes run under a small
limit of open files (`lower_fd_limit`) so that a descriptor an answer path keeps shows within one batch."""
from vlib import common as C, serve as S, reqgen as G, strict_http as H, servecheck as K, gen_c04 as X

DRIVERS = ['Serve']   # model driver files this check runs: scopes translator failures to the tables they (and the proofs) import
TRUSTED = ['scripted transport of the harness stands for the socket; Server::process is driven in-process on a named 2 MiB-stack thread as workers are']
ASSUMPTIONS = ['real stack exhaustion and allocator failure are outside the model; the harness observes them as process aborts']
WITH_MODEL = True

def build(rng, tier):
    batches = []
    ntrees = 6 if tier == 'quick' else 60
    per = 450 if tier == 'quick' else 2500
    for ti in range(ntrees):
        tree = S.gen_tree(rng, small=True)
        # the fixed lists below go through both entry points: item k of a list takes entry (k + tree index) % 2, so over the trees of
        # a run every item meets Server::process AND Server::process_request (a defect may sit in one of the twin functions only)
        alt = X.Alt(ti)
        paths = ['/' + n.decode('utf-8', 'surrogateescape') for n in tree.names] + ['/sub', '/sub/', '/emptydir', '/page', '/missing', '/sub/deep']
        cases = []
        for i in range(per):
            entry = 'preq' if rng.chance(1, 4) else 'proc'
            k = rng.below(20)
            if k < 9:
                m, t, v, hs, b = G.valid_request(rng, paths)
                cases.append(K.mk(tree, m, t, hs, b, v, entry=entry, kind='valid'))
            elif k < 12:
                m, t = rng.choice(G.METHODS), rng.choice(G.WEIRD_TARGETS)
                cases.append(K.mk(tree, m, t, G.rand_headers(rng, 3), entry=entry, kind='weird-target'))
            elif k < 16:
                m, t, v, hs, b = G.valid_request(rng, paths)
                raw = G.req(m, t, v, hs, b)
                for _ in range(rng.range(1, 3)): raw = G.mutate(rng, raw)
                cases.append(K.mk(tree, m, t, hs, entry=entry, raw=raw, kind='mutated'))
            elif k == 16:
                n = rng.choice([1, 10, 100, 1000, 2500, 4900])
                raw = b'GET ' + rng.choice(paths).encode('utf-8', 'surrogateescape') + b' HTTP/1.1\r\n' + b'a: b\r\n' * n + b'\r\n'
                cases.append(K.mk(tree, 'GET', '/', entry=entry, raw=raw, kind=f'many-headers'))
            elif k == 17:
                n = rng.choice([9998, 9999, 10000, 10001, 20000])
                raw = G.req('POST', '/form-url-encoded-enctype-post-method', 'HTTP/1.1', [('Content-Type', 'application/x-www-form-urlencoded')], b'')
                raw = raw + (b'a=' + b'x' * (n - len(raw) - 2) if n > len(raw) + 2 else b'')
                cases.append(K.mk(tree, 'POST', '/form-url-encoded-enctype-post-method', entry=entry, raw=raw, kind='buffer-boundary'))
            elif k == 18:
                cases.append(K.mk(tree, 'GET', rng.choice(paths), entry='proc', app='err:' + C.hx(rng.choice(['boom', 'x' * 50, 'é', ''])), kind='handler-error'))
            else:
                raw = rng.bytes(rng.range(0, 300)) if rng.chance(1, 2) else b''
                cases.append(K.mk(tree, 'GET', '/', entry=entry, raw=raw, kind='random-bytes'))
        # fixed regression corpus (minimised past failures, F3–F10)
        for raw in [b'GET x HTTP/1.1\r\n\r\n', b'GET * HTTP/1.1\r\n\r\n', b'GET http://a/b HTTP/1.1\r\n\r\n', b'PUT : HTTP/1.1\r\n\r\n',
                    b'GET :x HTTP/1.1\r\n\r\n', b'GET / HTTP/1.1\r\nContent-Length: a\r\n\r\n', b'GET / HTTP/1.1\r\nContent-Length: \r\n\r\n',
                    b'GET /f HTTP/1.1\r\nRange: bytes=-30\r\n\r\n', b'GET / HTTP/1.1\r\n' + b'a\n' * 5000,
                    b'POST /form-url-encoded-enctype-post-method HTTP/1.1\r\nContent-Type: application/x-www-form-urlencoded\r\n\r\n\xff\xfe',
                    b'POST /form-multipart-enctype-post-method HTTP/1.1\r\nContent-Type: multipart/form-data; boundary=B\r\n\r\n--B\r\nContent-Disposition: form-data\r\n\r\nv\r\n--B--\r\n',
                    b'POST /form-multipart-enctype-post-method HTTP/1.1\r\nContent-Type: multipart/form-data; boundary=B\r\n\r\n--B\r\nContent-Disposition: form-data; name="a"\r\n\r\n\xff\r\n--B--\r\n']:
            for entry in ('proc', 'preq'):
                cases.append(K.mk(tree, '?', '?', entry=entry, raw=raw, kind='corpus'))
        p0n = rng.choice(paths)
        # numbers in Range headers only matter on a file that exists and has content: ask them of one (and of the random path as before)
        existing = [f for f, c in X.regular_files(tree) if len(c) > 1]        # sub/deep/keep.txt is in every tree
        pfile = rng.choice(existing) if existing else p0n
        # every spelling of a media type and its parameters that HTTP allows or a client may send (names are case-insensitive,
        # optional white space, quoted values, other parameters before the one looked for, control characters): a handler that
        # matches one spelling and extracts with another must still answer
        mp_body = b'--abc\r\nContent-Disposition: form-data; name="a"\r\n\r\nv\r\n--abc--\r\n'
        for ctv in ['multipart/form-data; boundary=abc', 'multipart/form-data; Boundary=abc', 'multipart/form-data; BOUNDARY=abc', 'Multipart/Form-Data; boundary=abc',
                    'MULTIPART/FORM-DATA; BOUNDARY=abc', 'multipart/form-data;boundary=abc', 'multipart/form-data ; boundary = abc', 'multipart/form-data; boundary="abc"',
                    'multipart/form-data; charset=utf-8; boundary=abc', 'multipart/form-data; boundary=abc; charset=utf-8', 'multipart/form-data; bound\x07ary=abc',
                    'multipart/form-data; boundary', 'multipart/form-data;', 'multipart/form-data', 'multipart/form-data; boundary=', 'multipart/form-data; xboundary=abc',
                    'multipart/form-data; boundary=abc, text/plain', 'multipart/mixed; boundary=abc', 'multipart/form-datax; boundary=abc', ' multipart/form-data; boundary=abc',
                    'application/x-www-form-urlencoded', 'Application/X-WWW-Form-Urlencoded', 'application/x-www-form-urlencoded; charset=UTF-8', 'application/x-www-form-urlencoded;',
                    'application/x-www-form-urlencodedx', 'text/plain', '', '*/*']:
            for hn in ('Content-Type', 'content-type', 'CONTENT-TYPE'):
                if hn != 'Content-Type' and not ctv.lower().startswith(('multipart/form-data; b', 'application/x-www-form-urlencoded')): continue
                for tgt, body in (('/form-multipart-enctype-post-method', mp_body), ('/form-url-encoded-enctype-post-method', b'a=1&b=2')):
                    cases.append(K.mk(tree, 'POST', tgt, [(hn, ctv)], body, entry=alt(), kind='media-type-spelling'))
        # the same field / key / header more than once, in every place the server builds a map from client input
        for body in (b'color=red&color=green', b'a=1&b=2&a=3', b'tag&tag', b'a=1&a=1', b'A=1&a=2', b'a%20b=1&a+b=2', b'=1&=2', b'x=1&' * 40 + b'x=2'):
            cases.append(K.mk(tree, 'POST', '/form-url-encoded-enctype-post-method', [('Content-Type', 'application/x-www-form-urlencoded')], body, entry=alt(), kind='repeated-field'))
            cases.append(K.mk(tree, 'GET', '/form-get-method?' + body.decode(), [], entry=alt(), kind='repeated-field'))
            cases.append(K.mk(tree, 'POST', '/file-upload/initiate?name=a&lastModified=1&size=2&' + body.decode(), [], entry=alt(), kind='repeated-field'))
        two = b'--B\r\nContent-Disposition: form-data; name="a"\r\n\r\n1\r\n--B\r\nContent-Disposition: form-data; name="a"; filename="f"\r\n\r\n2\r\n--B--\r\n'
        cases.append(K.mk(tree, 'POST', '/form-multipart-enctype-post-method', [('Content-Type', 'multipart/form-data; boundary=B')], two, entry=alt(), kind='repeated-field'))
        for hn in ('Host', 'Origin', 'Range', 'Content-Type', 'Content-Length', 'Access-Control-Request-Method'):
            v = {'Range': 'bytes=0-0', 'Content-Length': '0', 'Content-Type': 'text/plain'}.get(hn, 'http://a')
            for pth in (p0n, pfile):
                cases.append(K.mk(tree, 'GET', pth, [(hn, v), (hn, v)], entry=alt(), kind='repeated-header'))
                cases.append(K.mk(tree, 'OPTIONS', pth, [(hn.lower(), v), (hn, v + '1'), (hn.upper(), '')], entry=alt(), kind='repeated-header'))
        # client-supplied numbers at and around every machine-integer limit, in every place a handler or parser reads a number:
        # query parameters of the built-in endpoints, Content-Length, Range bounds (arithmetic on them must not overflow)
        LIMITS = [0, 1, 255, 256, 32767, 32768, 65535, 65536, 2**31 - 1, 2**31, 2**32 - 1, 2**32, 2**63 - 1, 2**63, 2**64 - 1, 2**64, 2**127 - 1, 2**127, 2**128 - 1, 2**128]
        nums = sorted({str(v + d) for v in LIMITS for d in (-2, -1, 0, 1)} | {str(2**63 - 1 - k) for k in (5999, 6000, 9999, 10000, 3999, 4000)} |
                      {'-' + str(v) for v in (1, 2**31, 2**63, 2**63 + 1, 2**127)} | {'+1', '1e3', '0x10', '00000000000000000000000000000001', '9' * 40, '', ' 1', '1.5', 'NaN'})
        for nv in (nums if (tier != 'quick' or ti < 2) else []):      # two trees in the quick tier: the second one sends every item through the other entry point
            for field in ('size', 'lastModified', 'name'):
                q = '&'.join(f'{k}={nv if k == field else "7"}' for k in ('name', 'lastModified', 'size'))
                cases.append(K.mk(tree, 'POST', '/file-upload/initiate?' + q, [], entry=alt(), kind='numeric-limit-query'))
            cases.append(K.mk(tree, 'GET', '/form-get-method?size=' + nv + '&n=' + nv, [], entry=alt(), kind='numeric-limit-query'))
            cases.append(K.mk(tree, 'POST', '/form-url-encoded-enctype-post-method', [('Content-Type', 'application/x-www-form-urlencoded'), ('Content-Length', nv)], b'size=' + nv.encode(), entry=alt(), kind='numeric-limit-header'))
            for pth in (p0n, pfile):
                e = alt()
                cases.append(K.mk(tree, 'GET', pth, [('Range', f'bytes={nv}-')], entry=e, kind='numeric-limit-header'))
                cases.append(K.mk(tree, 'GET', pth, [('Range', f'bytes=0-{nv}')], entry=e, kind='numeric-limit-header'))
                cases.append(K.mk(tree, 'GET', pth, [('Range', f'bytes=-{nv}')], entry=e, kind='numeric-limit-header'))
                cases.append(K.mk(tree, 'GET', pth, [('Range', f'bytes=0-0,{nv}-{nv}')], entry=e, kind='numeric-limit-header'))
        # long targets / header values with a multi-byte character at every offset around the lengths a
        # logger or a fixed-size field would cut at (64, 128, 255, 256, 512, 1024)
        p0 = rng.choice(paths)
        for cut in (64, 128, 255, 256, 257, 512, 1024):
            for ch in ('é', '€', '\U0001F600'):
                for off in (0, 1, 2, 3):
                    k = cut - 1 - off
                    cases.append(K.mk(tree, 'GET', '/' + 'a' * k + ch + 'b' * 40, [], entry=alt(), kind='long-multibyte-target'))
                    if off < 2:
                        cases.append(K.mk(tree, 'GET', p0, [('Cookie', 'c' * (k + 1) + ch + 'd' * 40)], entry=alt(), kind='long-multibyte-header'))
        # very many small units inside the buffer, and inside a much larger configured buffer
        mp_head = b'POST /form-multipart-enctype-post-method HTTP/1.1\r\nContent-Type: multipart/form-data; boundary=%s\r\n\r\n'
        wf = b''.join(b'--B\r\nContent-Disposition: form-data; name="f%d"\r\n\r\nv\r\n' % i for i in range(170)) + b'--B--\r\n'
        cases.append(K.mk(tree, 'POST', '/form-multipart-enctype-post-method', raw=(mp_head % b'B') + wf, entry=alt(), kind='many-parts'))
        cases.append(K.mk(tree, 'POST', '/form-multipart-enctype-post-method', raw=(mp_head % b'X') + b'X\n' + b'a:1\n\nX\n' * 1400, entry=alt(), kind='many-parts'))
        if ti == 0:
            cases.append(K.mk(tree, 'POST', '/form-multipart-enctype-post-method', raw=(mp_head % b'X') + b'X\n' + b'a:1\n\nX\n' * 40000, alloc=400000, kind='many-parts-big-buffer'))
            cases.append(K.mk(tree, 'GET', '/', raw=b'GET ' + p0.encode('utf-8', 'surrogateescape') + b' HTTP/1.1\r\n' + b'a: b\r\n' * 60000 + b'\r\n', alloc=400000, kind='many-headers-big-buffer'))
            cases.append(K.mk(tree, 'POST', '/form-url-encoded-enctype-post-method', raw=b'POST /form-url-encoded-enctype-post-method HTTP/1.1\r\nContent-Type: application/x-www-form-urlencoded\r\n\r\n' + b'&'.join(b'k%d=v' % i for i in range(30000)), alloc=400000, kind='many-fields-big-buffer'))
        # unparsable requests that fill the buffer exactly / by one / several times, then end of stream
        for n in (9999, 10000, 10001, 15000, 20000, 20001, 30000):
            for fill in (b'\xff', b'G', b'\x00'):
                for entry in ('proc', 'preq'):
                    cases.append(K.mk(tree, '?', '?', entry=entry, raw=fill * n, kind='oversized-malformed'))
        cases.append(Case_read_error(tree))
        batches.append((tree, cases))
    # the input classes added by the generator audit (vlib/gen_c04.py), in batches of their own
    batches += X.extra_batches(rng.fork('c04-audit'), tier)
    # second audit pass: the relations between two inputs that a feature added on this path would hinge on (headers the server ignores today x
    # the bytes after the head / the file asked for and its neighbours / the configuration), in batches of their own
    batches += X.feature_batches(rng.fork('c04-audit2'), tier)
    batches += X.repeat_batches(rng.fork('c04-repeat'), tier)
    return batches

def Case_read_error(tree):
    c = K.mk(tree, 'GET', '/', entry='proc', kind='read-error')
    c.line = 'proc real 10000 e all ok'
    return c

def transport_accepts_everything(c):
    """does the scripted stream of the case take every byte the server offers (possibly a few at a time)?  A write call that fails
    (`e:<k>`) or accepts nothing (`c:0`, a 0 in `s:…`) and a failing flush break the connection: the property then only asks that
    the server does not crash"""
    ws = c.ws or 'all'
    if c.flush not in (None, 'ok'): return False
    if ws == 'all': return True
    if ws.startswith('c:'): return int(ws[2:]) > 0
    if ws.startswith('s:'): return all(int(x) > 0 for x in ws[2:].split('.'))
    return False

def mask_returned(line):
    """serve.canon leaves a result line as it is when nothing reached the stream; Server::process_request still RETURNS its response
    then (first write call failed): mask the two timestamp headers in it as canon does everywhere else"""
    if line.startswith('ret:') and ' w=- recv=- ' in line:
        head, rest = line.split(' ', 1)
        return 'ret:' + C.hx(S.mask_ts(C.unhx(head[4:]))) + ' ' + rest
    return line

def judge(res, results, status_table=None):
    for c, r, il, ml in results:
        if c.kind.startswith('retree'):
            # not a request: the harness rebuilt the tree of a history batch in place
            if r['head'] != 'ok': res.notes.append(f'history batch: the tree could not be rebuilt ({c.kind}: {r["head"][:40]})')
            continue
        res.evaluations += 1
        res.programs += 1 if ml is not None else 0
        res.count(f'{c.entry} {c.kind.split(":")[0]}')
        res.distinct.add(hash((c.entry, c.raw, c.app, c.ws, c.flush, c.alloc)))
        if ml is not None and il != ml and c.note not in ('no-model-input', 'kernel-limit-not-modelled', 'open-finding-i32-log-sum') and mask_returned(il) != mask_returned(ml):
            res.disagree(c.line[:400], il[:400], ml[:400], 'Server.process' if c.entry == 'proc' else 'Server.process_request')
        head = K.judge_common(res, c, r, 'C04')
        if head is None: continue
        if not transport_accepts_everything(c):
            res.count('result broken-transport')
            continue
        raw = r['recv']
        resp, why = K.parse_resp(raw, status_table)
        res.count('result ' + (head[:3] if not head.startswith('ret:') else 'ret'))
        if resp is None:
            res.fail('incomplete-response', c.line[:300], r['raw'][:200], None, f'C04: not exactly one complete response: {why}; request {c.raw[:80]!r}')
            continue
        parsable = K.request_is_parsable(c.raw, 10000 if c.alloc is None else c.alloc)
        # the method is only known (and HEAD/OPTIONS bodylessness only required) when the request line parses
        fr = H.check_framing(resp, (c.method if (c.kind in ('valid', 'handler-error') and c.method != '?') else firstword(c.raw)) if parsable else 'GET')
        fr = [x for x in fr if x != 'options-content-length']   # C05's clause (known finding F42), not C04's
        if fr:
            res.fail('framing:' + fr[0], c.line[:300], raw[:200].hex(), None, f'C04: response is not self-consistent: {fr}')
        res.count(f'status {resp["status"]}')
        failing_handler = bool(c.app) and c.app.startswith('err:') and c.entry == 'proc'
        must_err = failing_handler or c.kind == 'read-error' or not parsable
        if must_err and resp['status'] < 400:
            res.fail('no-error-status', c.line[:300], f'status {resp["status"]}', None,
                     f'C04: request cannot be parsed/served but was answered {resp["status"]}: {c.raw[:80]!r}')
        if c.entry == 'proc':
            if must_err and head != 'err' and (failing_handler or c.kind == 'read-error'):
                res.fail('error-not-reported', c.line[:300], head, None, 'C04: Server::process returned Ok although the handler/read failed')

def firstword(raw):
    # HTTP methods are case-sensitive (RFC 9110 9.1): `OPTIOnS` is not OPTIONS, the bodiless clause does not apply to it
    # the first token AFTER the leading white space the parser trims (` HEAD /x HTTP/1.1` is a HEAD request)
    try: return raw.split(b'\n', 1)[0].decode('utf-8').strip(K.RUST_WS).split(' ', 1)[0]
    except Exception: return '?'

def lower_fd_limit(n=X.FD_LIMIT):
    """the harness processes inherit the soft limit of open files of this process: under a small one a descriptor that an answer path forgets to close
    shows within one batch (vlib/gen_c04.py `repeat_batches` sends every path REPEATS > n times through one process).  This process itself holds two or
    three descriptors per harness / model process it is talking to: the limit stays untouched on a machine with so many CPUs that this comes near n"""
    try:
        import resource
        soft, hard = resource.getrlimit(resource.RLIMIT_NOFILE)
        if 3 * (C.NCPU + 8) + 40 < n and (soft == resource.RLIM_INFINITY or soft > n):
            resource.setrlimit(resource.RLIMIT_NOFILE, (n, hard))
            return lambda: resource.setrlimit(resource.RLIMIT_NOFILE, (soft, hard))
    except Exception:
        pass
    return lambda: None

def peer_address_part(res):
    """the harness gives every connection the peer address 127.0.0.1:40000; what the server does with OTHER peer addresses (an IPv6 client)
    is seen on the real binary listening on ::1 - every request there has to be answered (props/c06_socket.ipv6_part)"""
    import tempfile, shutil, os
    from vlib import realbin as RB
    from props import c06_socket
    ok, out = RB.build()
    if not ok:
        res.disagree('cargo build --release', out[-300:], None, 'real-binary-build'); return
    base = tempfile.mkdtemp(prefix='rwsc04-')
    try:
        with open(os.path.join(base, 'f.txt'), 'wb') as fh: fh.write(b'hello')
        c06_socket.ipv6_part(res, base)
    finally:
        shutil.rmtree(base, ignore_errors=True)

def run(res, tier, seed):
    import threading
    rng = C.Rng(seed)
    peer_address_part(res)
    batches = build(rng, tier)
    # other configurations (every batch of one run_batches call shares its env): started first, they run beside the main campaign
    confs = X.config_batches(rng.fork('c04-config'), tier) + X.feature_config_batches(rng.fork('c04-config2'), tier)
    conf_results = [None] * len(confs)
    def conf_work(i):
        pairs, tree, cases = confs[i]
        conf_results[i] = K.run_batches([(tree, cases)], with_model=WITH_MODEL, env=pairs)
    # histories (second audit pass): one process answers the same targets again after the tree changed under it; oracle only (the model keeps no state)
    hist = X.history_batches(rng.fork('c04-history'), tier)
    hist_results = []
    def hist_work(): hist_results.extend(K.run_batches(hist, with_model=False))
    ts = [threading.Thread(target=conf_work, args=(i,)) for i in range(len(confs))] + [threading.Thread(target=hist_work)]
    restore = lower_fd_limit()
    try:
        for t in ts: t.start()
        results = K.run_batches(batches, with_model=WITH_MODEL)
        for t in ts: t.join()
    finally:
        restore()
    for cr in conf_results: results += cr
    results += hist_results
    judge(res, results)
    for tree in [t for t, _ in batches] + [t for _, t, _ in confs] + [t for t, _ in hist]:
        if not tree.setup_ok: res.notes.append('tree setup failed for a batch')
    res.rule = ('requests = valid grammar-derived (9 methods x paths of the generated tree, built-in routes, form endpoints, 0..6 headers '
                'incl. hostile Origin/Range/Content-Length values) | targets not in origin form | 1..2 structure-unaware mutations of a valid '
                'request | 1..4900 header lines | lengths 9998..20000 around the buffer | failing handlers | random bytes | read error; both entry '
                'points (fixed lists alternate so that every item meets both) | audit classes (vlib/gen_c04.py): request-line grammar (method / version '
                'spellings, separators, blanks before the line, tiny inputs), header-line shapes at three positions, one foreign byte sequence at every '
                'part of five request templates, percent escapes at every decoder, every method x every non-origin-form target, target and tree-name '
                'shapes, ranges relative to the size of the file through every lookup step, multipart grammar (dispositions, part bodies, part headers, '
                'delimiters, boundary parameter, buffer end at every tail position), form / query shapes, endpoints x methods, failing and empty-answer '
                'handlers x methods, transport scripts (short writes, write / flush errors) on every answer path, request buffer cut at every position, '
                'served trees whose own pages are directories / empty / links / dangling / loops, CORS-list and small-buffer configurations | second audit '
                'pass (relations a feature added on this path would hinge on): values whose every byte offset is inside a character at every header / target / '
                'query / form / handler-message place, precompressed neighbours of every shape x Accept-Encoding x Range, validators (dates with a '
                'multi-byte character across every offset, entity tags, pairs) x lookup step x Range, numbers in 26 headers, Expect and Content-Length '
                'relative to the bytes after the head and to the buffer, Connection x version x a second request after the first, Transfer-Encoding x '
                'chunk shapes, proxy / Host / credential / cookie / digest / Upgrade / negotiation headers, files around 4 KiB..1 MB and thousands of parts, '
                'small buffers x all of these, every file-touching answer path 224 times in one process under a 192-descriptor limit, and (oracle only) '
                'the same targets again after the tree changed under the process; '
                'distinct = distinct (entry, request bytes, handler, transport script, buffer size)')
    for c, r, il, ml in results[:3]:
        res.sample({'entry': c.entry, 'request': c.raw[:120].decode('latin1'), 'result': r['head'][:40], 'response_head': r['recv'][:60].decode('latin1')})
