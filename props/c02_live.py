"""C02, second generator audit: an INTERACTIVE harness process.

The batch protocol of `vlib/servecheck.run_batches` hands a whole script to a harness process at once; the tree line of the harness knows
regular files, directories and links only.  This driver talks to one `rws_harness serve` process line by line, so that between two
requests the check itself can work on the directory the process serves (it is a real directory under the temporary directory):
set modification times, create special files (named pipes, sockets), change permissions, and CHANGE the files (grow, shrink, replace,
delete, create, re-point a link, turn a file into a directory) - the process that has answered for the old state answers for the new one.
No model run here (the model's tree has neither times nor special files): these cases are judged by the oracle of props/c02.py only."""
import os, subprocess, threading, select, time
from vlib import common as C, serve as S

class Live:
    """one harness process in `serve` mode; ask(line) -> result line ('abort <why>' when the process ended or did not answer)"""
    def __init__(self, setup_lines=()):
        self.setup_lines = list(setup_lines)
        self.after_setup = None          # callable run after the set-up lines of a (re)started process (file-system fix-ups)
        self.restartable = True          # False once the served directory was changed by the check: the tree line would rebuild the OLD state
        self.dead = False
        self.p = None
        self.buf = b''
    def _start(self):
        self.p = subprocess.Popen([C.HARNESS_BIN, 'serve'], stdin=subprocess.PIPE, stdout=subprocess.PIPE, stderr=subprocess.DEVNULL)
        self.buf = b''
        out = [self._ask(l) for l in self.setup_lines]
        if self.after_setup: self.after_setup()
        return out
    def start(self):
        return self._start()
    def _readline(self, deadline):
        while True:
            k = self.buf.find(b'\n')
            if k >= 0:
                line, self.buf = self.buf[:k], self.buf[k + 1:]
                return line
            left = deadline - time.time()
            if left <= 0: return None
            r, _, _ = select.select([self.p.stdout], [], [], min(left, 1.0))
            if not r: continue
            chunk = os.read(self.p.stdout.fileno(), 1 << 20)
            if not chunk: return None
            self.buf += chunk
    def _ask(self, line, timeout=40):
        try:
            self.p.stdin.write(line.encode() + b'\n'); self.p.stdin.flush()
        except OSError:
            return None
        deadline = time.time() + timeout
        while True:
            l = self._readline(deadline)
            if l is None: return None
            if l.startswith(b'\x01'): return l[1:].decode('utf-8', 'replace')      # everything else is what the server prints (its log)
    def ask(self, line):
        if self.dead: return 'abort not-run (the process ended on an earlier case of this scenario)'
        if self.p is None: self._start()
        r = self._ask(line)
        if r is not None: return r
        # the process ended (abort, stack overflow) or its watchdog fired (a handler that blocks or spins): a fresh one takes over
        rc = None
        try: self.p.kill()
        except OSError: pass
        try: rc = self.p.wait(timeout=10)
        except subprocess.TimeoutExpired: pass
        if self.restartable: self._start()
        else: self.dead = True; self.p = None
        return 'abort %s' % rc
    def stop(self):
        if self.p is None: return
        try: self.p.stdin.close()
        except OSError: pass
        try: self.p.wait(timeout=10)
        except subprocess.TimeoutExpired:
            try: self.p.kill()
            except OSError: pass
        try: self.p.stdout.close()
        except OSError: pass
        self.p = None

def run_scenarios(scenarios):
    """scenario: dict(tree=Tree, env=pairs|None, steps=[Case | callable(root) | ('dyn', fn(results) -> Case|None) | ('mark', name)], fix=callable(root)|None, cleanup=callable(root)|None).
    Every Case is sent to the process when its turn comes; a callable is run at that point (it changes the served directory).
    -> list of (Case, parsed result, scenario) in order"""
    out = [None] * len(scenarios)
    def work(i):
        sc = scenarios[i]
        tree = sc['tree']
        lv = Live([tree.line(), S.env_line(sc.get('env'))])
        if sc.get('fix'): lv.after_setup = (lambda: sc['fix'](tree.root))
        res = []
        try:
            setup = lv.start()
            sc['setup_ok'] = setup == ['ok', 'ok']
            for st in sc['steps']:
                if isinstance(st, tuple) and st[0] == 'mark':
                    sc.setdefault('marks', {})['pos'] = len(res); continue
                if isinstance(st, tuple) and st[0] == 'dyn':
                    st = st[1](res)                       # a request that depends on earlier answers of this process (a tag it gave out)
                    if st is None: continue
                elif callable(st):
                    st(tree.root)
                    lv.restartable = False                # (the tree line would rebuild the state before the change)
                    continue
                r = lv.ask(st.line)
                res.append((st, S.parse_result(r), sc))
        finally:
            lv.stop()
            if sc.get('cleanup'): sc['cleanup'](tree.root)
            import shutil
            shutil.rmtree(os.fsdecode(tree.root), ignore_errors=True)      # (a process that was killed has not removed its directory)
        out[i] = res
    sem = threading.Semaphore(C.NCPU)
    def guarded(i):
        with sem: work(i)
    ts = [threading.Thread(target=guarded, args=(i,)) for i in range(len(scenarios))]
    for t in ts: t.start()
    for t in ts: t.join()
    return [x for part in out for x in (part or [])]
