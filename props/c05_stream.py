"""C05, what the PEER sees: the judgement of props/c05.py reads the bytes the transport was handed and the bytes the peer received
as a STREAM - every buffer, not the first one only.

  STATUS          the registry of status codes (IANA HTTP Status Code Registry) with the reason phrases of RFC 9110 and, where the
                  registry renamed one, of RFC 7231 - written from the registry, not from the server's table.  The eight statuses
                  of vlib/strict_http.py keep their single phrase.
  split_stream    a stream of response bytes as the sequence it is: interim answers (1xx: a head, no body), then the final answer;
                  when the client sent several requests in one go and an answer is delimited by its Content-Length, the next one
  single_buffer   did the server hand ONE buffer to the transport (the later write calls offering what was left of it)?
  refuses         does the transport script refuse bytes (a write call that accepts nothing: the peer stopped reading)?
  twin_key        the case without its transport script: the same request on a transport that accepts everything is the reference
                  for what the server emits when it emits several buffers
"""
import re
from vlib import strict_http as H

class Phrases(frozenset):
    """the reason phrases registered for one status: compares equal to each of them (vlib/strict_http.py compares with !=)"""
    def __eq__(self, other): return other in frozenset(self)
    def __ne__(self, other): return other not in frozenset(self)
    __hash__ = frozenset.__hash__
    def __repr__(self): return ' / '.join(sorted(self))

_REGISTRY = {
    100: 'Continue', 101: 'Switching Protocols', 102: 'Processing', 103: 'Early Hints',
    200: 'OK', 201: 'Created', 202: 'Accepted', 203: 'Non-Authoritative Information', 204: 'No Content', 205: 'Reset Content', 206: 'Partial Content',
    207: 'Multi-Status', 208: 'Already Reported', 226: 'IM Used',
    300: 'Multiple Choices', 301: 'Moved Permanently', 302: 'Found', 303: 'See Other', 304: 'Not Modified', 305: 'Use Proxy', 307: 'Temporary Redirect',
    308: 'Permanent Redirect',
    400: 'Bad Request', 401: 'Unauthorized', 402: 'Payment Required', 403: 'Forbidden', 404: 'Not Found', 405: 'Method Not Allowed', 406: 'Not Acceptable',
    407: 'Proxy Authentication Required', 408: 'Request Timeout', 409: 'Conflict', 410: 'Gone', 411: 'Length Required', 412: 'Precondition Failed',
    413: ('Content Too Large', 'Payload Too Large'), 414: 'URI Too Long', 415: 'Unsupported Media Type', 416: 'Range Not Satisfiable', 417: 'Expectation Failed',
    421: 'Misdirected Request', 422: ('Unprocessable Content', 'Unprocessable Entity'), 423: 'Locked', 424: 'Failed Dependency', 425: 'Too Early',
    426: 'Upgrade Required', 428: 'Precondition Required', 429: 'Too Many Requests', 431: 'Request Header Fields Too Large', 451: 'Unavailable For Legal Reasons',
    500: 'Internal Server Error', 501: 'Not Implemented', 502: 'Bad Gateway', 503: 'Service Unavailable', 504: 'Gateway Timeout', 505: 'HTTP Version Not Supported',
    506: 'Variant Also Negotiates', 507: 'Insufficient Storage', 508: 'Loop Detected', 510: 'Not Extended', 511: 'Network Authentication Required',
}
STATUS = {k: Phrases([v] if isinstance(v, str) else v) for k, v in _REGISTRY.items()}
for _k, _v in H.REASONS.items(): STATUS[_k] = Phrases([_v])

BODYLESS = ('HEAD', 'OPTIONS')

def split_stream(raw, table, methods):
    """[(response, method | 'interim')] or raises H.Bad.  One request: [interim]* final, the final answer's body is everything
    after its head (as before).  Several requests sent in one go (`methods` has more than one entry): an answer whose length is
    known (Content-Length, or none at all for HEAD / OPTIONS) and which is followed by another status line ends there."""
    out, rest, i = [], raw, 0
    while True:
        if re.match(rb'HTTP/1\.1 1\d\d ', rest):
            j = rest.find(b'\r\n\r\n')
            if j < 0: raise H.Bad('no blank line terminating the head of the interim response')
            out.append((H.parse(rest[:j + 4], table), 'interim'))
            rest = rest[j + 4:]
            if not rest: return out
            continue
        resp = H.parse(rest, table)
        meth = methods[min(i, len(methods) - 1)]
        if i + 1 < len(methods):
            cl = H.get(resp['headers'], 'Content-Length')
            n = 0 if meth in BODYLESS else int(cl[0]) if len(cl) == 1 and cl[0].isdigit() else None
            if n is not None and len(resp['body']) > n and resp['body'][n:].startswith(b'HTTP/1.1 '):
                out.append((dict(resp, body=resp['body'][:n]), meth))
                rest, i = resp['body'][n:], i + 1
                continue
        out.append((resp, meth))
        return out

def accepted(ws, call, n):
    """bytes the scripted transport takes of an n-byte buffer on its call-th write call (harness/src/ops/serve.rs)"""
    if ws == 'all' or ws.startswith('e:'): return n
    if ws.startswith('c:'): return min(int(ws[2:]), n)
    seq = [int(x) for x in ws[2:].split('.')]
    return min(seq[call], n) if call < len(seq) else n

def refuses(ws):
    if ws.startswith('c:'): return int(ws[2:]) == 0
    return ws.startswith('s:') and any(int(x) == 0 for x in ws[2:].split('.'))

def single_buffer(r, ws):
    """one buffer, handed over until it was taken whole (or refused): every later call offers exactly what the call before left"""
    if not r['writes']: return True
    n, call = len(r['writes'][0]), 0
    for nxt in r.get('later', []):
        a = accepted(ws, call, n)
        if a >= n or nxt != n - a: return False
        n, call = nxt, call + 1
    return True

def complete_final(raw, table, meth):
    """is `raw` a whole final answer (nothing may follow it)?"""
    try: resp = H.parse(raw, table)
    except H.Bad: return False
    if resp['status'] < 200: return False
    cl = H.get(resp['headers'], 'Content-Length')
    if meth in BODYLESS: return not resp['body']
    return not cl or (cl[0].isdigit() and int(cl[0]) == len(resp['body']))

def twin_key(c):
    f = c.line.split(' ')
    return (id(c.tree), f[0]) + (tuple(f[1:4]) + tuple(f[5:]) if f[0] == 'proc' else tuple(f[1:2]) + tuple(f[3:]))
