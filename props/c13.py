"""C13 — the server never modifies the files it serves.
Tie: (a) effect inventory of the source regenerated every run (no write/create/delete/rename
API is called outside tests) — props/c13_runtime.py; (b) thorough: the real binary under strace;
(c) both tiers: full manifest (paths, types, sizes, content hashes, link targets, mtimes, modes)
of the generated tree — served root AND everything around it — before and after each batch of
the C04-style campaign plus upload-shaped PUT/DELETE/PATCH/POST bodies, and at probe points inside
each batch; (d) sentinel directories OUTSIDE the generated trees (the temporary directory, the home
directory, a directory of absolute names the requests mention) compared before/after the whole run;
(e) the real binary started in a served directory that holds a configuration file.
Second audit pass (relations of two inputs, AUDIT2.md): (g) batches on a matrix tree (header x size / type / neighbours of the file), resume / Expect /
pipelining / Host / digest relations, a long run in one process; (h) an OBSERVED SESSION (vlib/gen_c13.aged_session): one harness process driven line by
line against a tree whose modification times the check sets itself (sidecars staler / fresher than their files by seconds to days, left-overs older than a
year, also in TMPDIR / HOME / XDG_* of the process), the tree and those directories looked at after EVERY request; (f) props/c13_clients.py: what the client
does after sending (resets, stalled and slow readers, split requests, eight at once for the same file) against the real binary, which then stays up idle
until the end of the check and is stopped gracefully.
Generators: vlib/gen_c13.py (class tables: audit/C13/AUDIT.md, AUDIT2.md of the generator audits)."""
import os, threading
from vlib import common as C, serve as S, reqgen as G, strict_http as H, servecheck as K, gen_c13 as X
from props import c04

DRIVERS = ['Serve']   # model driver files this check runs: scopes translator failures to the tables they (and the proofs) import
TRUSTED = ['manifest taken by the harness itself (FNV-1a content hash, symlink_metadata)', 'sentinel directories: manifest taken by props/c13_runtime.manifest (lstat + sha256)']
ASSUMPTIONS = ['the proof is about the model\'s effect signature (the file system is an input only); the tie to the code is the inventory, the manifests and (thorough) strace']
WITH_MODEL = True

def upload_cases(rng, tree, newfile='/newfile.txt'):
    """the first upload family of this check, kept as it was (the request stream of the kept seeded changes depends on it)"""
    names = ['/' + n.decode('utf-8', 'surrogateescape') for n in tree.names]
    cases = []
    mp = (b'--B\r\nContent-Disposition: form-data; name="file"; filename="%s"\r\nContent-Type: application/octet-stream\r\n\r\nOVERWRITTEN\r\n--B--\r\n')
    for m in ('PUT', 'DELETE', 'PATCH', 'POST', 'GET', 'OPTIONS', 'TRACE', 'CONNECT'):
        for t in names[:4] + [newfile, '/sub/new.txt', '/sub/', '/', '/../escape.txt', '/file-upload/initiate?name=' + names[0][1:] + '&lastModified=1&size=11',
                              '/form-multipart-enctype-post-method', '/form-url-encoded-enctype-post-method', '/form-get-method?file=' + names[0][1:]]:
            fn = rng.choice([names[0][1:], '../escape.txt', 'new.bin', '/nonexistent-rws-c13/rws-escape']).encode('utf-8', 'surrogateescape')
            for ct, body in (('multipart/form-data; boundary=B', mp % fn), ('application/x-www-form-urlencoded', b'name=' + fn + b'&content=OVERWRITTEN'),
                             ('application/octet-stream', b'OVERWRITTEN'), (None, b'')):
                hs = [('Content-Type', ct)] if ct else []
                hs.append(('Content-Length', str(len(body))))
                cases.append(K.mk(tree, m, t, hs, body, entry=rng.choice(['proc', 'preq']), kind='upload-shaped'))
    return cases

def build(rng, tier, sent):
    """-> [(env | None, [(tree, cases)])]: the batches of the default configuration and of two other configurations"""
    quick = tier == 'quick'
    batches = c04.build(rng, tier)[: (3 if quick else 40)]
    for i in range(3 if quick else 30):
        tree = S.gen_tree(rng, small=True)
        # plus a read of EVERY name of the tree (files, links, links reached through linked directories, directories, missing
        # neighbours) with GET / HEAD / Range: a read path that creates what it does not find changes the manifest
        reads = []
        for n in tree.names + [b'sub', b'emptydir', b'alias', b'alias/missing.txt', b'real/deep/missing.lnk', b'missing.txt']:
            t = '/' + n.decode('utf-8', 'surrogateescape')
            for m, hs in (('GET', []), ('HEAD', []), ('GET', [('Range', 'bytes=0-0')]), ('GET', [('Range', 'bytes=0-99999')])):
                reads.append(K.mk(tree, m, t, hs, entry=rng.choice(['proc', 'preq']), kind='read-every-name'))
        batches.append((tree, upload_cases(rng, tree, '/' + sent.tag + '-newfile.txt') + reads))
    for shape in range(2):
        # the tree shape in which the kernel's and a textual resolution of a relative link disagree, always present
        tree = S.gen_tree(rng, small=True)
        if b'alias/rel.lnk' not in tree.names:
            root = tree.cwd + b'/'
            tree.file(root + b'real/data.txt', b'data next to real/deep').file(root + b'real/deep/own.txt', b'own')
            tree.link(root + b'real/deep/rel.lnk', b'../data.txt').link(root + b'alias', b'real/deep')
            tree.names += [b'alias/own.txt', b'alias/rel.lnk', b'real/deep/rel.lnk']
        reads = [K.mk(tree, m, '/' + n.decode('utf-8', 'surrogateescape'), hs, entry=e, kind='read-every-name')
                 for n in tree.names for m, hs in (('GET', []), ('HEAD', []), ('GET', [('Range', 'bytes=0-0')])) for e in ('proc', 'preq')]
        batches.append((tree, reads))
    # ---- the families of vlib/gen_c13.py on enriched trees (every link shape, conventional upload / cache / log places, names that
    # need escaping); every tree is read completely, the other families rotate over the trees (quick) or all run on every tree
    fams = [lambda t: X.upload_cases(rng, t, sent, tier), lambda t: X.history_cases(rng, t, sent, tier) + X.transport_cases(rng, t, tier) + X.rejected_cases(rng, t, tier),
            lambda t: X.vocab_cases(rng, t, sent, tier) + X.aexec_cases(rng, t, sent, tier) + X.endpoint_cases(rng, t, tier)]
    for i in range(3 if quick else 18):
        tree = X.enrich(rng, S.gen_tree(rng, small=True), sent)
        cases = X.read_cases(rng, tree, tier)
        for f in ([fams[i % 3]] if quick else fams): cases += f(tree)
        batches.append((tree, cases))
    # ---- the files the built-in controllers look for, in every state (absent / regular / empty / link / dangling link / directory)
    for k in range(6):
        tree = X.builtin_variant_tree(rng, k, sent)
        batches.append((tree, X.endpoint_cases(rng, tree, tier) + (X.read_cases(rng, tree, tier) if not quick else [])))
    # ---- second audit pass (AUDIT2.md): relations of two inputs.  A generator of its own (forked), so that the streams above stay as they were
    r2 = rng.fork('audit2')
    mt = X.matrix_tree(r2, sent)
    batches.append((mt, X.negotiation_cases(r2, mt, tier) + X.range_walk_cases(r2, mt, tier) + X.listing_cases(r2, mt, tier) + X.query_word_cases(r2, mt, sent, tier)))
    for i in range(1 if quick else 6):
        tree = X.enrich(r2, S.gen_tree(r2, small=True), sent)
        batches.append((tree, X.resume_cases(r2, tree, sent, tier) + X.expect_cases(r2, tree, tier) + X.pipeline_cases(r2, tree, sent, tier) + X.part_header_cases(r2, tree, tier)
                        + X.query_word_cases(r2, tree, sent, tier) + X.host_cases(r2, tree, sent, tier)))
    groups = [(None, [(t, X.with_probes(cs, 60 if len(cs) < 3000 else 150)) for t, cs in batches])]
    # ---- other configurations: a restricted CORS list with a 5000-byte buffer, and no configuration at all
    for env in (X.CORS_ENV, X.BARE_ENV):
        g = []
        for i in range(1 if quick else 4):
            tree = X.enrich(rng, S.gen_tree(rng, small=True), sent)
            cases = X.cors_cases(rng, tree, tier) + X.initiate_cases(rng, tree, X.name_pool(tree, sent), tier) + X.endpoint_cases(rng, tree, tier)
            if not quick: cases += X.upload_cases(rng, tree, sent, tier) + X.read_cases(rng, tree, tier)
            g.append((tree, X.with_probes(cases)))
        groups.append((env, g))
    # ---- (second audit pass) more requests in one process than a batching rule counts to.  Implementation only (the model has no counters).
    tree = X.enrich(r2, S.gen_tree(r2, small=True), sent); tree.no_model = True
    groups.append((None, [(tree, X.with_probes(X.long_run_cases(r2, tree, sent, 10200 if quick else 70000), 1000))]))
    # ---- (second audit pass) relation configuration x request: every RWS_* name the source mentions that the default configuration does not set,
    # switched on (nothing on the tree as it is; a setting added by a change is in this list the moment it is written).  Implementation only.
    extra = X.feature_env_names()
    for val in (('true', '1', 'rws-feature.out') if extra else ()):
        tree = X.enrich(r2, S.gen_tree(r2, small=True), sent); tree.no_model = True
        cases = X.endpoint_cases(r2, tree, tier) + X.read_cases(r2, tree, tier) + X.initiate_cases(r2, tree, X.name_pool(tree, sent), tier) + X.multipart_cases(r2, tree, X.name_pool(tree, sent), tier)
        groups.append((S.DEFAULT_ENV + [(n, val) for n in extra], [(tree, X.with_probes(cases))]))
    return groups

def same_but_for_time(il, ml):
    """vlib.serve.canon masks the two time-stamp headers only when something was written; the legacy entry point RETURNS the
    answer also when its first write fails (`preq … e:0`): then the returned bytes are compared with the time stamps masked here"""
    tail = ' w=- recv=- fl=0'
    if not (il.startswith('ret:') and ml.startswith('ret:') and il.endswith(tail) and ml.endswith(tail)): return False
    try: return S.mask_ts(C.unhx(il[4:-len(tail)])) == S.mask_ts(C.unhx(ml[4:-len(tail)]))
    except ValueError: return False

def localise(tree, env, cases, lo, hi):
    """the batch again (implementation only) with a manifest after every case of the window (lo, hi]: the first case after which
    the manifest differs from the one before it, or None"""
    real = [c for c in cases[:hi + 1] if c.kind != X.PROBE]
    nlo = len([c for c in cases[:lo + 1] if c.kind != X.PROBE])
    lines = [tree.line(), S.env_line(env), 'manifest'] + [c.line for c in real[:nlo]] + ['manifest']
    for c in real[nlo:]: lines += [c.line, 'manifest']
    out, _ = S.run_stateful([C.HARNESS_BIN, 'serve'], lines)
    if any(o.startswith('abort') for o in out): return None
    prev = out[3 + nlo]
    for j, c in enumerate(real[nlo:]):
        cur = out[3 + nlo + 2 + 2 * j]
        if cur != prev: return c, prev, cur
        prev = cur
    return None

def delta(before, after):
    sb, sa = set(before.split(' ', 1)[-1].split(',')), set(after.split(' ', 1)[-1].split(','))
    def show(e):
        f = e.split(':')
        try: f[0] = C.unhx(f[0]).decode('utf-8', 'replace')
        except ValueError: pass
        return ':'.join(f)
    return dict(new_or_changed=[show(e) for e in sorted(sa - sb)[:6]], gone_or_changed=[show(e) for e in sorted(sb - sa)[:6]], n_new=len(sa - sb), n_gone=len(sb - sa))

def judge_manifests(res, tree, env, cases, rows):
    """the manifest of the whole generated tree is the same at the start of the batch, at every probe and at its end.  (When the
    harness process ended on a case - `abort` - the tree was rebuilt for the rest: manifests are compared per process.)"""
    res.count('batches with manifest compared')
    aborts = [k for k, (c, r, il, ml) in enumerate(rows) if r['head'].startswith('abort')]
    last_abort = aborts[-1] if aborts else -1
    cur, cur_k = (tree.manifest[0] if last_abort < 0 else None), -1
    bad = None
    for k, (c, r, il, ml) in enumerate(rows):
        if k in aborts:
            cur, cur_k = (tree.manifest[0] if k == last_abort else None), k
            continue
        if c.kind != X.PROBE: continue
        res.count('manifest probes')
        m = r['head']
        if cur is not None and m != cur and bad is None: bad = (cur_k, k, cur, m)
        cur, cur_k = m, k
    if bad is None and (cur != tree.manifest[1] or not tree.manifest[1].startswith('ok')):
        bad = (cur_k, len(rows) - 1, cur or tree.manifest[0], tree.manifest[1])
    if bad is None: return
    lo, hi, mb, ma = bad
    d = delta(mb, ma)
    found = localise(tree, env, cases, lo, hi) if not aborts else None
    if found:
        c, pb, pa = found
        d = delta(pb, pa)
        res.fail('tree-modified', dict(mode='serve', line=c.line[:2000], tree=tree.line()[:300], kind=c.kind, request=repr(c.raw[:300])), str(d)[:600], None,
                 f'C13: the manifest of the generated tree changed while this request ({c.kind}, entry {c.entry}) was served: {d["n_new"]} entries new/changed, {d["n_gone"]} gone/changed')
    else:
        window = [c for c in cases[lo + 1:hi + 1] if c.kind != X.PROBE]
        res.fail('tree-modified', dict(mode='serve', tree=tree.line()[:300], first=window[0].line[:600] if window else None, last=window[-1].line[:600] if window else None), str(d)[:600], None,
                 f'C13: the tree manifest changed during a window of {len(window)} requests of a batch of {len(cases)}: {d["n_new"]} entries new/changed, {d["n_gone"]} gone/changed')

def startup_config_check(res, tier, seed):
    """(e) the real binary started in a served directory that holds rws.config.toml (restricted CORS list, another buffer size),
    with the configuration also given by environment and command line: manifest of the arena before the start / after the stop"""
    import tempfile, shutil
    from props import c13_runtime as RT
    from vlib import realbin as R
    rng = C.Rng(seed).fork('c13-startup-config')
    ok, out = R.build()
    if not ok: return
    base = tempfile.mkdtemp(prefix='rws-c13c-')
    try:
        ar = RT.make_arena(base, rng.fork('arena'), n_files=12)
        cfg = ("ip = '127.0.0.1'\nport = 7888\nthread_count = 3\nrequest-allocation-size-in-bytes = 12000 # comment\n\n[cors]\nallow_all = false\n"
               'allow_origins = ["https://foo.example", "https://bar.example"]\nallow_methods = ["GET", "DELETE", "PUT", "PATCH"]\nallow_headers = ["content-type", "x-custom-header"]\n'
               'allow_credentials = true\nexpose_headers = ["content-type"]\nmax_age = "600"\n')
        with open(os.path.join(ar.docroot, 'rws.config.toml'), 'w') as fh: fh.write(cfg)
        for extra in ('rws.config.toml.bak', 'rws.pid', '.rws'):
            with open(os.path.join(ar.docroot, extra), 'wb') as fh: fh.write(b'sentinel ' + extra.encode())
        before = RT.manifest(ar.base)
        n = 0
        for env, args in (({'TMPDIR': ar.tmpdir, 'HOME': ar.tmpdir}, ()), ({'TMPDIR': ar.tmpdir, 'HOME': ar.tmpdir, 'RWS_CONFIG_CORS_ALLOW_ALL': 'true', 'RWS_CONFIG_REQUEST_ALLOCATION_SIZE_IN_BYTES': '5000'},
                                                                          ('--cors-allow-all=false', '--cors-allow-origins=https://foo.example'))):
            with R.Server(ar.docroot, threads=3, env=env, args=args, capture_stdout=False) as srv:
                reqs = RT.upload_requests(rng.fork('upload%d' % n), sorted(ar.files), 60 if tier == 'quick' else 400)
                for o in ('https://foo.example', 'https://evil.example', 'null'):
                    for m, t in (('GET', '/upload.txt'), ('OPTIONS', '/upload.txt'), ('PUT', '/uploads/new.bin'), ('DELETE', '/upload.txt'), ('GET', '/rws.config.toml'), ('PUT', '/rws.config.toml'),
                                 ('POST', '/file-upload/initiate?name=new.bin&lastModified=1&size=9000')):
                        reqs.append(G.req(m, t, 'HTTP/1.1', [('Host', 'localhost'), ('Origin', o), ('Access-Control-Request-Method', 'PUT'), ('Content-Length', '1')], b'x'))
                # requests larger than the buffer (the campaign of c13_runtime keeps below it): what does not fit must not be spilled
                for total in (11999, 12000, 12001, 24001, 70000):
                    reqs.append(G.req('PUT', '/uploads/big-%d.bin' % total, 'HTTP/1.1', [('Host', 'localhost'), ('Content-Length', str(total))], b'B' * total))
                    reqs.append(G.req('POST', '/form-multipart-enctype-post-method', 'HTTP/1.1', [('Host', 'localhost'), ('Content-Type', 'multipart/form-data; boundary=B')],
                                      X.multipart('B', [X.p_file(b'file', 'big-%d.bin' % total, b'F' * total), X.BAD_PARTS[0]])))
                for r in reqs:
                    if not srv.alive(): break
                    try: srv.request(r, timeout=10)
                    except Exception: pass
                    n += 1
        d = RT.diff_manifest(before, RT.manifest(ar.base))
        res.evaluations += n; res.programs += n
        res.count('requests to the real binary started with a configuration file', n)
        for line in d[:10]:
            res.fail('tree-modified:' + line.split(' ')[0], dict(difference=line, requests=n, start='real binary, served directory holds rws.config.toml'), line, 'no difference',
                     'the manifest of the served tree / sentinel directories changed between the start and the stop of the real binary (configuration file present): ' + line)
    finally:
        shutil.rmtree(base, ignore_errors=True)

def run(res, tier, seed):
    rng = C.Rng(seed)
    from props import c13_runtime as RT, c13_clients as CL
    # (f) what the client does after sending (resets, stalled and slow readers, split requests, eight at once) against the real binary: started
    # before everything else - it plays in the background and the server then stays up, idle, until the end of the check (timers, background jobs)
    clients = CL.Clients(tier, seed)
    with X.Sentinel(seed) as sent:
        outside_before = sent.snapshot()
        groups = build(rng, tier, sent)
        # answers of a megabyte and more whose delivery fails (first write refused, flush refused) or succeeds: whatever a server keeps
        # about a large transfer while it runs must be gone afterwards.  Implementation only (the model of a 1.2 MiB body is slow);
        # judged by the tree manifest and the sentinel directories.
        big_tree = S.gen_tree(rng, small=True); big_tree.no_model = True
        big_tree.file(big_tree.cwd + b'/big/large.bin', bytes((j * 131 + (j >> 8) * 29 + 17) & 0xff for j in range(1200003)))
        big_tree.file(big_tree.cwd + b'/big/mib.bin', b'm' * 1048576).file(big_tree.cwd + b'/big/below.bin', b'b' * 1048575)
        big_cases = []
        for name in ('large.bin', 'mib.bin', 'below.bin'):
            for entry in ('proc', 'preq'):
                # completed transfers first, refused deliveries last: what a completed transfer cleans up must not hide what a failed one left
                for ws, fl in (('all', 'ok'), ('c:65536', 'ok'), ('e:1', 'ok'), ('all', 'e'), ('e:0', 'ok')):
                    big_cases.append(K.mk(big_tree, 'GET', '/big/' + name, [], entry=entry, ws=ws, flush=fl, kind='big-transfer'))
                big_cases.append(K.mk(big_tree, 'GET', '/big/' + name, [('Range', 'bytes=0-1100000')], entry=entry, ws='e:0', kind='big-transfer'))
                big_cases.append(K.mk(big_tree, 'HEAD', '/big/' + name, [], entry=entry, ws='e:0', kind='big-transfer'))
        # (second audit pass) relation header x LARGE file: negotiation, ranges that start inside the file, several ranges, revalidation - delivered and
        # refused; a `.gz` neighbour older than the 1.2 MiB file and one newer than the 1 MiB file
        big_tree.files = {big_tree.cwd + b'/big/large.bin.gz': b'\x1f\x8b older', **big_tree.files, big_tree.cwd + b'/big/mib.bin.gz': b'\x1f\x8b newer'}
        for name in ('large.bin', 'mib.bin'):
            for k, hs in enumerate(([('Accept-Encoding', 'gzip')], [('Accept-Encoding', 'br, gzip;q=0.5')], [('Range', 'bytes=1-')], [('Range', 'bytes=1048000-')], [('Range', 'bytes=0-0,1048570-1048575')],
                                    [('Range', 'bytes=100-'), ('If-Range', '"abc"')], [('If-None-Match', '"x"')], [('Want-Digest', 'sha-256')])):
                big_cases.append(K.mk(big_tree, 'GET', '/big/' + name, hs, entry=X.ENTRIES[k % 2], kind='big-transfer'))
                if k < 4: big_cases.append(K.mk(big_tree, 'GET', '/big/' + name, hs, entry=X.ENTRIES[(k + 1) % 2], ws=('e:0', 'e:1')[k % 2], kind='big-transfer'))
        # stable order: every refused delivery after every completed one, and the batch ends once with a refused delivery on each entry
        # point (a transfer that ends properly on one entry point may clean up what a refused one on the other left behind)
        big_cases.sort(key=lambda c: (c.ws == 'e:0' or c.flush == 'e'))
        big_tail = [c for c in big_cases if c.ws == 'e:0' and c.method == 'GET' and not c.headers]
        for ent in ('proc', 'preq'):
            # one harness process each (the marker of a transfer may be named after the process): the last request of the batch is a
            # refused delivery through `ent`
            tail = [c for c in big_tail if c.entry == ent][:1]
            # ... on a tree directory of its own: the process that ends first removes its directory
            groups.append((None, [(big_tree.clone(), [c for c in big_cases if c not in tail] + tail)]))
        out = [None] * len(groups)
        def work(i):
            wm = WITH_MODEL and not getattr(groups[i][1][0][0], 'no_model', False)
            out[i] = K.run_batches(groups[i][1], with_model=wm, env=groups[i][0])
        # aged trees (second audit pass): the check sets modification times itself and looks at the tree after every request; sessions with
        # directories of their own, run while the batches run, results merged afterwards
        aged_res = C.Result('C13')
        def aged():
            for i in range(1 if tier == 'quick' else 4):
                X.aged_session(aged_res, rng.fork('aged%d' % i), sent, tier, env=(None, X.CORS_ENV, X.BARE_ENV, None)[i % 4], idx=i)
        ts = [threading.Thread(target=work, args=(i,)) for i in range(len(groups))] + [threading.Thread(target=aged)]
        for t in ts: t.start()
        for t in ts: t.join()
        res.failures += aged_res.failures; res.disagreements += aged_res.disagreements; res.notes += aged_res.notes
        res.evaluations += aged_res.evaluations; res.distinct |= aged_res.distinct
        for k, v in aged_res.dist.items(): res.count(k, v)
        outside_after = sent.snapshot()
        sent.restore_env()
        nbatches = nreq = 0
        for (env, batches), results in zip(groups, out):
            pos = 0
            for tree, cases in batches:
                rows = results[pos:pos + len(cases)]; pos += len(cases)
                nbatches += 1
                for c, r, il, ml in rows:
                    if c.kind == X.PROBE: continue
                    nreq += 1
                    res.evaluations += 1
                    res.distinct.add(hash((c.entry, c.raw)))
                    res.count(f'{c.kind} {c.entry}')
                    if ml is not None:
                        res.programs += 1
                        if il != ml and not same_but_for_time(il, ml): res.disagree(c.line[:400], il[:300], ml[:300], 'Server')
                if not getattr(tree, 'setup_ok', True):
                    res.disagree(tree.line()[:300], 'the harness could not build this tree', 'ok', 'c13-tree-setup')
                judge_manifests(res, tree, env, cases, rows)
        # (d) nothing appeared, vanished or changed OUTSIDE the generated trees: temporary directory, home directory, the absolute names
        # the requests mention (only the tree directories of the harness itself are exempt)
        for line in RT.diff_manifest(outside_before, outside_after)[:10]:
            res.fail('outside-modified:' + line.split(' ')[0], dict(difference=line.replace(sent.base, '<sentinel>'), requests=nreq), line.replace(sent.base, '<sentinel>'), 'no difference',
                     'C13: a sentinel directory outside every served tree (TMPDIR / HOME / absolute names mentioned by requests) changed during the campaign: ' + line.replace(sent.base, '<sentinel>'))
        # ... and the names that a textual resolution of a `//` link target (or a request target taken as a file name) places at the ROOT of
        # the file system: unique to this run, must not exist there (removed again if they do)
        for p in sent.root_strays():
            res.fail('outside-modified:CREATED', dict(difference='CREATED ' + p, requests=nreq), 'CREATED ' + p, 'no difference',
                     'C13: a file appeared at the root of the file system under a name only this run\'s link targets / request names mention: ' + p)
        sent.clean_root()
        res.count('sentinel entries outside the trees compared', len(outside_before) + len(sent.root_names))
        sample_manifest = groups[0][1][0][0].manifest[0][:200]
    RT.report_inventory(res)                      # (a) effect inventory of the source, regenerated now
    RT.manifest_check(res, tier, seed)            # (c') the REAL binary over an arena with sentinel directories
    startup_config_check(res, tier, seed)         # (e) the real binary next to a configuration file
    clients.finish(res)                           # (f) started first, stopped last (see above)
    if tier == 'thorough':
        st = RT.strace_check(tier, seed)          # (b) the real binary under strace
        res.extra['strace'] = {k: v for k, v in st.items() if k != 'violations'}
        for v in st['violations'][:5]:
            res.fail('syscall:' + str(v)[:60], 'strace campaign', str(v)[:300], None, 'C13: the server issued a file-modifying system call')
    res.rule = ('request sequences of the C04 campaign and upload-shaped bodies (multipart with file parts in every position / spelling, urlencoded, octet-stream, chunked, sized around the buffer) on '
                'every method incl. WebDAV against files, directories, links of every shape (dangling, chains, loops, absolute, through linked directories), new names, traversals, absolute names, '
                'the built-in routes with their files in six states, the form and file-upload endpoints at every numeric threshold, rejected requests, transport failures, histories, the source\'s own '
                'vocabulary, three configurations, both entry points and the handler called directly; relations of two inputs (negotiation / caching / proxy / upgrade headers x files of every type around every size threshold with '
                'sidecars older and newer, validators that match, announcements of files that exist, Expect and pipelined requests around the buffer, range walks, Host values, digests that match, 10000 requests in one process, '
                'files with ages from seconds to years in an observed session, client behaviours against the real binary); the manifest of the WHOLE generated tree (root, ancestors, siblings) is compared before/after '
                'each batch and at probes inside it, sentinel directories outside the trees before/after the run; distinct = (entry, request)')
    res.sample({'batches': nbatches, 'requests': nreq, 'manifest_sample': sample_manifest})
