"""C13 — the server never modifies the files it serves.
Tie: (a) effect inventory of the source regenerated every run (no write/create/delete/rename
API is called outside tests) — props/c13_runtime.py; (b) thorough: the real binary under strace;
(c) both tiers: full manifest (paths, types, sizes, content hashes, link targets, mtimes, modes)
of the generated tree — served root AND everything around it — before and after each batch of
the C04-style campaign plus upload-shaped PUT/DELETE/PATCH/POST bodies."""
from vlib import common as C, serve as S, reqgen as G, strict_http as H, servecheck as K
from props import c04

DRIVERS = ['Serve']   # model driver files this check runs: scopes translator failures to the tables they (and the proofs) import
TRUSTED = ['manifest taken by the harness itself (FNV-1a content hash, symlink_metadata)']
ASSUMPTIONS = ['the proof is about the model\'s effect signature (the file system is an input only); the tie to the code is the inventory, the manifests and (thorough) strace']
WITH_MODEL = True

def upload_cases(rng, tree):
    names = ['/' + n.decode('utf-8', 'surrogateescape') for n in tree.names]
    cases = []
    mp = (b'--B\r\nContent-Disposition: form-data; name="file"; filename="%s"\r\nContent-Type: application/octet-stream\r\n\r\nOVERWRITTEN\r\n--B--\r\n')
    for m in ('PUT', 'DELETE', 'PATCH', 'POST', 'GET', 'OPTIONS', 'TRACE', 'CONNECT'):
        for t in names[:4] + ['/newfile.txt', '/sub/new.txt', '/sub/', '/', '/../escape.txt', '/file-upload/initiate?name=' + names[0][1:] + '&lastModified=1&size=11',
                              '/form-multipart-enctype-post-method', '/form-url-encoded-enctype-post-method', '/form-get-method?file=' + names[0][1:]]:
            fn = rng.choice([names[0][1:], '../escape.txt', 'new.bin', '/etc/rws-escape']).encode('utf-8', 'surrogateescape')
            for ct, body in (('multipart/form-data; boundary=B', mp % fn), ('application/x-www-form-urlencoded', b'name=' + fn + b'&content=OVERWRITTEN'),
                             ('application/octet-stream', b'OVERWRITTEN'), (None, b'')):
                hs = [('Content-Type', ct)] if ct else []
                hs.append(('Content-Length', str(len(body))))
                cases.append(K.mk(tree, m, t, hs, body, entry=rng.choice(['proc', 'preq']), kind='upload-shaped'))
    return cases

def run(res, tier, seed):
    rng = C.Rng(seed)
    batches = c04.build(rng, tier)[: (3 if tier == 'quick' else 40)]
    for i in range(3 if tier == 'quick' else 30):
        tree = S.gen_tree(rng, small=True)
        # plus a read of EVERY name of the tree (files, links, links reached through linked directories, directories, missing
        # neighbours) with GET / HEAD / Range: a read path that creates what it does not find changes the manifest
        reads = []
        for n in tree.names + [b'sub', b'emptydir', b'alias', b'alias/missing.txt', b'real/deep/missing.lnk', b'missing.txt']:
            t = '/' + n.decode('utf-8', 'surrogateescape')
            for m, hs in (('GET', []), ('HEAD', []), ('GET', [('Range', 'bytes=0-0')]), ('GET', [('Range', 'bytes=0-99999')])):
                reads.append(K.mk(tree, m, t, hs, entry=rng.choice(['proc', 'preq']), kind='read-every-name'))
        batches.append((tree, upload_cases(rng, tree) + reads))
    for shape in range(2):
        # the tree shape in which the kernel's and a textual resolution of a relative link disagree, always present
        tree = S.gen_tree(rng, small=True)
        if b'alias/rel.lnk' not in tree.names:
            root = tree.cwd + b'/'
            tree.file(root + b'real/data.txt', b'data next to real/deep').file(root + b'real/deep/own.txt', b'own')
            tree.link(root + b'real/deep/rel.lnk', b'../data.txt').link(root + b'alias', b'real/deep')
            tree.names += [b'alias/own.txt', b'alias/rel.lnk', b'real/deep/rel.lnk']
        reads = [K.mk(tree, m, '/' + n.decode('utf-8', 'surrogateescape'), hs, entry=e, kind='read-every-name')
                 for n in tree.names for m, hs in (('GET', []), ('HEAD', []), ('GET', [('Range', 'bytes=0-0')])) for e in ('proc', 'preq')]
        batches.append((tree, reads))
    results = K.run_batches(batches, with_model=WITH_MODEL)
    for c, r, il, ml in results:
        res.evaluations += 1
        res.distinct.add(hash((c.entry, c.raw)))
        res.count(f'{c.kind} {c.entry}')
        if ml is not None:
            res.programs += 1
            if il != ml: res.disagree(c.line[:400], il[:300], ml[:300], 'Server')
    for tree, cases in batches:
        res.count('batches with manifest compared')
        if not tree.manifest_ok:
            b, a = tree.manifest
            sb, sa = set(b.split(',')), set(a.split(','))
            delta = sorted(sa ^ sb)[:6]
            res.fail('tree-modified', tree.line()[:300], str(delta)[:400], None,
                     f'C13: the tree manifest changed during a batch of {len(cases)} requests: {len(sa - sb)} entries new/changed, {len(sb - sa)} gone/changed')
    from props import c13_runtime as RT
    RT.report_inventory(res)                      # (a) effect inventory of the source, regenerated now
    RT.manifest_check(res, tier, seed)            # (c') the REAL binary over an arena with sentinel directories
    if tier == 'thorough':
        st = RT.strace_check(tier, seed)          # (b) the real binary under strace
        res.extra['strace'] = {k: v for k, v in st.items() if k != 'violations'}
        for v in st['violations'][:5]:
            res.fail('syscall:' + str(v)[:60], 'strace campaign', str(v)[:300], None, 'C13: the server issued a file-modifying system call')
    res.rule = ('request sequences of the C04 campaign and upload-shaped bodies (multipart with filename incl. ../ and absolute names, urlencoded, octet-stream) on '
                'PUT/DELETE/PATCH/POST/GET/OPTIONS/TRACE/CONNECT against files, directories, new names, the form and file-upload endpoints, both entry points; '
                'the manifest of the WHOLE generated tree (root, ancestors, siblings) is compared before/after each batch; distinct = (entry, request)')
    res.sample({'batches': len(batches), 'requests': len(results), 'manifest_sample': batches[0][0].manifest[0][:200]})
