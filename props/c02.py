"""C02 — static resources: the right file, its exact bytes, its media type.
Oracle (implementation only): the documented lookup (file, else <dir>/index.html, else
<path>.html) evaluated directly on the generated tree; body byte-identical to that file;
Content-Type from an independent extension table; Content-Length = size; 404 with the
not-found page (never another file's content) when the lookup selects nothing."""
from vlib import common as C, serve as S, reqgen as G, strict_http as H, servecheck as K

DRIVERS = ['Serve', 'Mime']   # model driver files this check runs: scopes translator failures to the tables they (and the proofs) import
TRUSTED = ['Linux file system semantics for the generated trees (real files through the harness)']
ASSUMPTIONS = ['independent extension->type table for the extensions the generator uses (vlib/servecheck.py EXT_TYPES)',
               'cases the documented lookup does not determine (trailing slash on a file, names file-ext refuses, percent-encoded names, symlinks, '
               'directory without index but with sibling .html) are compared model-vs-code only']
WITH_MODEL = True

def build(rng, tier):
    batches = []
    for ti in range(8 if tier == 'quick' else 100):
        tree = S.gen_tree(rng, small=(ti % 2 == 0))
        names = [n.decode('utf-8', 'surrogateescape') for n in tree.names]
        dirs = ['sub', 'sub/deep', 'dir.with.dots', 'emptydir']
        cases = []
        def add(t, entry=None, hs=()):
            cases.append(K.mk(tree, 'GET', t, hs, entry=entry or rng.choice(['proc', 'proc', 'proc', 'preq']), kind='lookup'))
        for n in names:
            add('/' + n)
            add('/' + n + '?q=' + G.rand_token(rng))
            add('/' + n + '#' + G.rand_token(rng))
            add('/' + n + '?a=1&b=/../x#frag/..')
            if n.endswith('.html'): add('/' + n[:-5]); add('/' + n[:-5] + '?x=y')
            add('/' + n + '/')                       # near miss: extra slash
            add('/' + n[:-1])                        # near miss: truncated name
            add('/' + n + 'x')
            add('//' + n); add('/./' + n)
            if '.' in n.split('/')[-1][1:]: add('/' + n.rsplit('.', 1)[0])   # extensionless
        for d in dirs:
            add('/' + d); add('/' + d + '/'); add('/' + d + '?x=1'); add('/' + d + '/index.html'); add('/' + d + '/missing.txt')
        # query strings and fragments whose own text looks like a path decision (ends in '/', '.html', 'index.html', empty):
        # the lookup has to be made on the parsed path, never on the raw target
        TAILS = ['?next=/', '?return_to=/a/b/', '#/', '?', '#', '?#', '?x=.html', '#x.html', '?x=/index.html', '?/', '#sec/', '?a=1&b=2/', '?x=1#/', '/?x=/', '/#/']
        for base in ['/' + d for d in dirs] + ['/' + n for n in names[:6]] + ['/' + n[:-5] for n in names if n.endswith('.html')][:4] + ['/']:
            for tl in TAILS: add(base + tl)
        # links to files with RELATIVE targets, living below the root's top level; a namesake of the target sits in the root
        # (a resolution against the wrong directory serves the namesake or nothing)
        tree.file(tree.cwd + b'/sub/inner/data.txt', b'the data inside sub/inner').file(tree.cwd + b'/sub/data.txt', b'the data inside sub')
        tree.file(tree.cwd + b'/data.txt', b'NAMESAKE in the root').file(tree.cwd + b'/inner/data.txt', b'NAMESAKE in root/inner')
        tree.link(tree.cwd + b'/sub/alias.txt', b'data.txt').link(tree.cwd + b'/sub/down.txt', b'inner/data.txt')
        tree.link(tree.cwd + b'/sub/inner/up.txt', b'../data.txt').link(tree.cwd + b'/sub/inner/upup.txt', b'../../data.txt').link(tree.cwd + b'/top.lnk', b'sub/inner/data.txt')
        for t in ['/sub/alias.txt', '/sub/down.txt', '/sub/inner/up.txt', '/sub/inner/upup.txt', '/top.lnk', '/sub/alias.txt?x=1', '/sub//alias.txt']: add(t, 'proc'); add(t)
        # a directory WITH an index page next to a page of the same stem: the index wins for /guide and /guide/, the page is /guide.html
        tree.file(tree.cwd + b'/guide/index.html', b'<p>the index inside guide/</p>').file(tree.cwd + b'/guide.html', b'<p>the page guide.html, a different length</p>')
        tree.file(tree.cwd + b'/sub/deep/index.html', b'<p>deep index</p>').file(tree.cwd + b'/sub/deep.html', b'<p>deep page, longer than the index</p>')
        for t in ['/guide', '/guide/', '/guide.html', '/guide?x=1', '/guide#f', '/guide/index.html', '/sub/deep', '/sub/deep/', '/sub/deep.html']: add(t, 'proc'); add(t)
        if ti % 4 == 1:
            tree.file(tree.cwd + b'/docs/x.txt', b'x').file(tree.cwd + b'/docs.html', b'<d>').file(tree.cwd + b'/old.html.html', b'<o>')
            tree.file(tree.cwd + b'/idx/index.html/inner.txt', b'i').file(tree.cwd + b'/ghost.html/inner.txt', b'g')
            for t in ['/docs', '/docs/', '/old.html', '/idx', '/idx/', '/ghost', '/' + names[0] + '#x?y', '/' + names[0] + '#x']: add(t, 'proc')
        for t in ['/missing', '/missing/', '/missing.html', '/sub/missing', '/index.html', '/404.html', '/a b.txt', '/a%20b.txt', '/a&b.txt', '/.hidden0.txt']:
            add(t)
        batches.append((tree, cases))
    # F43: a working directory whose own path contains a character file-ext's filter refuses
    tree = S.gen_tree(rng, small=True); tree.root = tree.root + b' with space'; tree.cwd_refused = True
    batches.append((tree, [K.mk(tree, 'GET', '/' + n.decode('utf-8', 'surrogateescape'), entry='proc', kind='lookup') for n in tree.names[:6]]))
    return batches

def judge(res, results):
    for c, r, il, ml in results:
        res.evaluations += 1
        res.distinct.add(hash((c.entry, c.raw, id(c.tree))))
        if ml is not None:
            res.programs += 1
            if il != ml: res.disagree(c.line[:400], il[:300], ml[:300], 'StaticResourceController / lookup')
        if r['head'].startswith(('panic', 'abort')): continue
        if c.entry != 'proc':
            continue       # the documented lookup is the production chain's; the legacy chain serves plain files only (compared with the model)
        resp, why = K.parse_resp(r['writes'][0] if r['writes'] else b'')
        if resp is None: continue
        tb = c.target.encode('utf-8', 'surrogateescape')
        spec = K.spec_lookup(c.tree, tb)
        res.count('spec ' + spec[0] + (' ' + spec[1] if spec[0] == 'unspecified' else ''))
        if spec[0] == 'hit':
            rel, content = spec[1], spec[2]
            variant = 'cwd-refused' if getattr(c.tree, 'cwd_refused', False) else spec[3] if len(spec) > 3 else ('fragment-qmark' if K.fragment_has_qmark(tb) else 'cwd-refused' if getattr(c.tree, 'cwd_refused', False) else None)
            if resp['status'] != 200:
                res.fail('lookup-miss' + (':' + variant if variant else ''), c.line[:300], f'status {resp["status"]}', None, f'C02: GET {c.target!r} should serve {rel!r} ({len(content)} bytes) but was answered {resp["status"]}')
                continue
            if resp['body'] != content:
                res.fail('wrong-bytes', c.line[:300], f'{len(resp["body"])} bytes, first difference at {first_diff(resp["body"], content)}', None,
                         f'C02: body of GET {c.target!r} is not byte-identical to {rel!r} ({len(content)} bytes)')
            cl = H.get(resp['headers'], 'Content-Length')
            if cl != [str(len(content))]:
                res.fail('wrong-content-length', c.line[:300], str(cl), None, f'C02: Content-Length {cl} for a file of {len(content)} bytes')
            ext = K.ext_of(rel)
            if ext in K.EXT_TYPES and variant != 'symlink':      # (whether a link is typed by its own name or by its target's is not stated)
                ct = H.get(resp['headers'], 'Content-Type')
                if ct != [K.EXT_TYPES[ext]]:
                    res.fail('wrong-media-type', c.line[:300], str(ct), None, f'C02: {rel!r} labelled {ct}, expected {K.EXT_TYPES[ext]}')
        elif spec[0] == 'miss':
            if resp['status'] != 404:
                res.fail('miss-not-404', c.line[:300], f'status {resp["status"]}', None, f'C02: GET {c.target!r} selects nothing but was answered {resp["status"]}')
            own404 = c.tree.under_root().get(b'404.html')
            ok_body = (resp['body'] == own404) if own404 is not None else resp['body'].startswith(K.BUILTIN_404_PREFIX)
            if not ok_body:
                res.fail('miss-body-not-notfound-page', c.line[:300], resp['body'][:60].hex(), None,
                         f'C02: the 404 for {c.target!r} carries something other than the not-found page (a listing or another file)')

def first_diff(a, b):
    for i, (x, y) in enumerate(zip(a, b)):
        if x != y: return i
    return min(len(a), len(b))

def run(res, tier, seed):
    rng = C.Rng(seed)
    batches = build(rng, tier)
    results = K.run_batches(batches, with_model=WITH_MODEL)
    judge(res, results)
    from props import mime_part
    mlines, mmeta = mime_part.gen_lines(rng, tier)
    mimpl, mmodel = C.run_both(mlines)
    mime_part.judge(res, mlines, mmeta, mimpl, mmodel)
    res.rule = ('trees: nested directories, empty files, position-dependent and random binary content incl. all 256 byte values, sizes around 8191/8192/8193 and '
                '9999/10000/10001, names with several dots / none / leading dot / non-ASCII / upper-case extension, symlink, own index.html/404.html present or not; '
                'paths: every file, with query, fragment, both; .html fallback with and without query; near misses (extra slash, truncated, suffixed, '
                'extensionless, doubled slash, ./); directories with and without index; missing; distinct = (tree, entry, request)')
    for c, r, il, ml in results[:3]:
        res.sample({'entry': c.entry, 'target': c.target, 'status_line': r['recv'][:30].decode('latin1'), 'spec': str(K.spec_lookup(c.tree, c.target.encode('utf-8', 'surrogateescape'))[:2])})
