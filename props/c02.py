"""C02 — static resources: the right file, its exact bytes, its media type.
(second generator audit: props/c02_features.py, props/c02_live.py, the second half of vlib/gen_c02.py; table in audit/C02/AUDIT2.md)
Oracle (implementation only): the documented lookup (file, else <dir>/index.html, else
<path>.html) evaluated directly on the generated tree (vlib/gen_c02.py `spec`: path resolution as
the kernel does it, links to files and directories included); body byte-identical to that file;
Content-Type from an independent extension table; Content-Length = size; 404 with the
not-found page (never another file's content) when the lookup selects nothing."""
import re
from vlib import common as C, serve as S, reqgen as G, strict_http as H, servecheck as K, gen_c02 as X
from props import c02_features as F2, c02_live as LV

DRIVERS = ['Serve', 'Mime']   # model driver files this check runs: scopes translator failures to the tables they (and the proofs) import
TRUSTED = ['Linux file system semantics for the generated trees (real files through the harness)']
ASSUMPTIONS = ['independent extension->type table (vlib/servecheck.py EXT_TYPES and the table of props/mime_part.py)',
               'cases the documented lookup does not determine (trailing slash on a file, names file-ext refuses, percent-encoded names, links with absolute targets or '
               'leaving the root, links inside linked directories, the routes the chain answers before the static controller, requests that do not fit the request buffer, '
               'conditional request headers, malformed request lines) are compared model-vs-code only',
               'legacy entry point: judged on the common domain only (a plain file named exactly, no query, no fragment)',
               'second audit pass: a body in a content coding the request itself asked for (Accept-Encoding) is compared after decoding (gzip, deflate) and its Content-Length is not judged; '
               'a conditional request is judged only when its condition cannot hold for the selected file (a date before the file\'s own, an invented entity tag, If-Range without Range) or has to be '
               'ignored (not an HTTP-date); requests that arrive in one read are judged answer by answer as far as answers come; interim (1xx) answers are skipped; '
               'scenarios with modification times, locks, special files and files that change between two answers run on the real code only (props/c02_live.py), without the model']
WITH_MODEL = True

STATUS = dict(H.REASONS)
STATUS.update({301: 'Moved Permanently', 302: 'Found', 304: 'Not Modified', 403: 'Forbidden', 405: 'Method Not Allowed', 406: 'Not Acceptable', 412: 'Precondition Failed',
               414: 'URI Too Long', 431: 'Request Header Fields Too Large', 503: 'Service Unavailable'})

TAILS = ['?next=/', '?return_to=/a/b/', '#/', '?', '#', '?#', '?x=.html', '#x.html', '?x=/index.html', '?/', '#sec/', '?a=1&b=2/', '?x=1#/', '/?x=/', '/#/']
TAILS2 = ['??', '?a?b', '#a#b', '?a#b#c', '?a=b=c', '?=', '?&&', '?a=1&a=2', '?u=http://h/p', '?p=//x', '#//', '?x=1#y?z', '?.', '#.', '?x=..', '#..', '?/..', '?index.html', '#index.html',
          '?.html', '?q=a+b', '?q=café', '#é', '?x=:', '?x=@', '?[]=1', '?a[0]=1', '?q=' + 'x' * 700, '#' + 'f' * 700]

def build(rng, tier):
    thorough = tier != 'quick'
    batches = []
    for ti in range(8 if tier == 'quick' else 100):
        tree = S.gen_tree(rng, small=(ti % 2 == 0))
        names = [n.decode('utf-8', 'surrogateescape') for n in tree.names]
        dirs = ['sub', 'sub/deep', 'dir.with.dots', 'emptydir']
        cases = []
        def add(t, entry=None, hs=(), **kw):
            # every target goes through the production entry point (the one the oracle judges); one in four also through another entry
            cases.append(K.mk(tree, 'GET', t, hs, entry=entry or 'proc', kind='lookup', **kw))
            if entry is None and rng.chance(1, 6): cases.append(K.mk(tree, 'GET', t, hs, entry=rng.choice(['preq', 'preq', 'aexec']), kind='lookup', **kw))
        for n in names:
            add('/' + n)
            add('/' + n + '?q=' + G.rand_token(rng))
            add('/' + n + '#' + G.rand_token(rng))
            add('/' + n + '?a=1&b=/../x#frag/..')
            if n.endswith('.html'): add('/' + n[:-5]); add('/' + n[:-5] + '?x=y')
            add('/' + n + '/')                       # near miss: extra slash
            add('/' + n[:-1])                        # near miss: truncated name
            add('/' + n + 'x')
            add('//' + n); add('/./' + n)
            if '.' in n.split('/')[-1][1:]: add('/' + n.rsplit('.', 1)[0])   # extensionless
            # near misses in letter case (the file system tells them apart), separators repeated inside the path, a dot or .html appended
            cvs = X.case_variants(n)
            for cv in (cvs if thorough else [rng.choice(cvs)] if cvs else []): add('/' + cv)
            if '/' in n:
                for sep in (['//', '/./', '/.//'] if thorough or n.endswith('.lnk') else [rng.choice(['//', '/./', '/.//'])]): add('/' + n.replace('/', sep))
            for suf in (['.', '/.', '.html'] if thorough else [rng.choice(['.', '/.', '.html'])]): add('/' + n + suf)
            add('/' + n + rng.choice(TAILS2))
        for d in dirs:
            add('/' + d); add('/' + d + '/'); add('/' + d + '?x=1'); add('/' + d + '/index.html'); add('/' + d + '/missing.txt')
        # query strings and fragments whose own text looks like a path decision (ends in '/', '.html', 'index.html', empty):
        # the lookup has to be made on the parsed path, never on the raw target
        for base in ['/' + d for d in dirs] + ['/' + n for n in names[:6]] + ['/' + n[:-5] for n in names if n.endswith('.html')][:4] + ['/']:
            for tl in TAILS: add(base + tl)
            for tl in (TAILS2 if thorough else [rng.choice(TAILS2) for _ in range(2)]): add(base + tl)
        # links to files with RELATIVE targets, living below the root's top level; a namesake of the target sits in the root
        # (a resolution against the wrong directory serves the namesake or nothing)
        tree.file(tree.cwd + b'/sub/inner/data.txt', b'the data inside sub/inner').file(tree.cwd + b'/sub/data.txt', b'the data inside sub')
        tree.file(tree.cwd + b'/data.txt', b'NAMESAKE in the root').file(tree.cwd + b'/inner/data.txt', b'NAMESAKE in root/inner')
        tree.link(tree.cwd + b'/sub/alias.txt', b'data.txt').link(tree.cwd + b'/sub/down.txt', b'inner/data.txt')
        tree.link(tree.cwd + b'/sub/inner/up.txt', b'../data.txt').link(tree.cwd + b'/sub/inner/upup.txt', b'../../data.txt').link(tree.cwd + b'/top.lnk', b'sub/inner/data.txt')
        for t in ['/sub/alias.txt', '/sub/down.txt', '/sub/inner/up.txt', '/sub/inner/upup.txt', '/top.lnk', '/sub/alias.txt?x=1', '/sub//alias.txt']: add(t)
        # a directory WITH an index page next to a page of the same stem: the index wins for /guide and /guide/, the page is /guide.html
        tree.file(tree.cwd + b'/guide/index.html', b'<p>the index inside guide/</p>').file(tree.cwd + b'/guide.html', b'<p>the page guide.html, a different length</p>')
        tree.file(tree.cwd + b'/sub/deep/index.html', b'<p>deep index</p>').file(tree.cwd + b'/sub/deep.html', b'<p>deep page, longer than the index</p>')
        for t in ['/guide', '/guide/', '/guide.html', '/guide?x=1', '/guide#f', '/guide/index.html', '/sub/deep', '/sub/deep/', '/sub/deep.html']: add(t)
        if ti % 4 == 1:
            tree.file(tree.cwd + b'/docs/x.txt', b'x').file(tree.cwd + b'/docs.html', b'<d>').file(tree.cwd + b'/old.html.html', b'<o>')
            tree.file(tree.cwd + b'/idx/index.html/inner.txt', b'i').file(tree.cwd + b'/ghost.html/inner.txt', b'g')
            for t in ['/docs', '/docs/', '/old.html', '/idx', '/idx/', '/ghost', '/' + names[0] + '#x?y', '/' + names[0] + '#x']: add(t, 'proc')
        for t in ['/missing', '/missing/', '/missing.html', '/sub/missing', '/index.html', '/404.html', '/a b.txt', '/a%20b.txt', '/a&b.txt', '/.hidden0.txt',
                  '/index', '/404', '/sub/index', '/sub/index.htm', '/guide/index', '/INDEX.HTML', '/Sub/', '/SUB', '/Guide', '/guide/INDEX.html']:
            add(t)
        # every directory the tree has (not only the four fixed names), in every spelling of "this directory"
        alldirs = sorted(X.view(tree).dirs)
        for d in (alldirs if thorough else [rng.choice(alldirs) for _ in range(3)]):
            ds = d.decode('utf-8', 'surrogateescape')
            V = ['/' + ds, '/' + ds + '/', '/' + ds + '//', '/' + ds + '/.', '/' + ds + '/./', '/' + ds + '/?x=1', '/' + ds + '#f', '/' + ds + '/index', '/' + ds + '/index.htm', '/' + ds + '.html',
                 '//' + ds, '/./' + ds + '/']
            for t in (V if thorough else V[:2] + [V[2 + rng.below(3)], V[5 + rng.below(2)], V[7 + rng.below(3)], V[10 + rng.below(2)]]):
                add(t)
        # history: answers do not depend on what was asked before - a sample of the batch again, in another order
        again = [rng.choice(cases) for _ in range(16)]
        cases.extend(again)
        batches.append((tree, cases))
    # F43: a working directory whose own path contains a character file-ext's filter refuses
    tree = S.gen_tree(rng, small=True); tree.root = tree.root + b' with space'; tree.cwd_refused = True
    batches.append((tree, [K.mk(tree, 'GET', '/' + n.decode('utf-8', 'surrogateescape'), entry='proc', kind='lookup') for n in tree.names[:6]]))
    batches.extend(build_shapes(rng, thorough))
    return batches

def build_shapes(rng, thorough):
    """the input classes of vlib/gen_c02.py as batches"""
    out = []
    def cases_for(tree, targets, entries=('proc',), extra=0):
        cs = []
        for t in targets:
            for e in entries: cs.append(K.mk(tree, 'GET', t, (), entry=e, kind='lookup'))
            if extra and rng.chance(1, extra): cs.append(K.mk(tree, 'GET', t, (), entry=rng.choice(['preq', 'aexec']), kind='lookup'))
        return cs
    # 1. lookup shapes under differently named served directories (the name of the served directory is configuration)
    cwds = X.CWDS if thorough else [b'root', X.CWDS[1 + rng.below(len(X.CWDS) - 1)]]
    for cwd in cwds:
        tree, T = X.shape_tree(rng, cwd, thorough)
        if not thorough and cwd != b'root': T = sorted({rng.choice(T) for _ in range(170)})
        cs = cases_for(tree, T, extra=4)
        for t in (T if thorough else [rng.choice(T) for _ in range(30)]):
            tl = rng.choice(TAILS + TAILS2)
            cs.append(K.mk(tree, 'GET', t + tl, (), entry='proc', kind='lookup'))
        cs.extend([rng.choice(cs) for _ in range(20)])
        out.append((tree, cs))
    # 2. contents and sizes
    for _ in range(3 if thorough else 1):
        tree, T = X.content_tree(rng, thorough)
        out.append((tree, cases_for(tree, T, extra=3)))
    # 3. every registered extension through the server
    tree, T = X.mime_tree(rng, thorough)
    out.append((tree, cases_for(tree, T, extra=8)))
    # 4. request headers, protocol versions, request sizes, buffer sizes: the lookup depends on the path only
    tree = X.new_tree(b'lvl0/root')
    R = tree.cwd + b'/'
    tree.file(R + b'h/file.bin', X.pattern(300, 3)).file(R + b'h/index.html', b'<p>index of h</p>').file(R + b'h/page.html', b'<p>page in h</p>').file(R + b'h/img.png', b'\x89PNG\r\n\x1a\n....')
    tree.file(R + b'h/data.json', b'{"a": 1}').file(R + b'other/index.html', b'<p>other</p>').file(R + b'other.html', b'<p>other page</p>')
    HT = ['/h/file.bin', '/h', '/h/', '/h/page', '/h/img.png?x=1', '/h/data.json', '/h/missing', '/missing', '/other']
    cs = []
    for hs, judged in X.header_sets(rng, thorough):
        for t in (HT if thorough else [HT[rng.below(2) * 3], HT[1 + rng.below(2)], rng.choice(HT[4:])]):
            cs.append(K.mk(tree, 'GET', t, hs, entry='proc', kind='lookup', note=None if judged else 'model-only'))
            if rng.chance(1, 6): cs.append(K.mk(tree, 'GET', t, hs, entry='aexec', kind='lookup', note=None if judged else 'model-only'))
    for t in (HT if thorough else [HT[0], HT[1 + rng.below(2)], HT[3], rng.choice(HT[4:])]):
        for v in ['HTTP/1.0', 'HTTP/2.0', 'HTTP/0.9', 'HTTP/1.1']:
            cs.append(K.mk(tree, 'GET', t, [('Host', 'localhost')], version=v, entry='proc', kind='lookup'))
            cs.append(K.mk(tree, 'GET', t, (), version=v, entry='proc', kind='lookup'))
        # spellings of the request a strict reader would refuse: compared with the model only
        for raw in [G.req('GET', t, eol=b'\n'), b'\r\n' + G.req('GET', t), G.req('GET', t, 'http/1.1'), G.req('get', t), G.req('GET', t)[:-2], G.req('GET', t) + b'trailing bytes',
                    G.req('GET', t, headers=[('Content-Length', '5')], body=b'hello'), G.req('GET', t).replace(b' HTTP', b'  HTTP'), G.req('GET', t).replace(b'GET ', b'GET  ')]:
            cs.append(K.mk(tree, 'GET', t, (), raw=raw, entry='proc', kind='lookup', note='model-only'))
        n = len(G.req('GET', t))
        for alloc in [n, n + 1, n + 2, 64, 128, 1024, 65536, 1000000]:
            if alloc < n: continue
            cs.append(K.mk(tree, 'GET', t, (), entry='proc', alloc=alloc, kind='lookup', note=None if alloc > n else 'model-only'))
    for t in (['/h/file.bin', '/h', '/h/page', '/h/missing'] if thorough else [rng.choice(['/h/file.bin', '/h/page']), rng.choice(['/h', '/h/missing'])]):
        for alloc in ([10000] if not thorough else [10000, 2000, 20000]):
            for tq, judged in X.long_queries(t, alloc):
                cs.append(K.mk(tree, 'GET', tq, (), entry='proc', alloc=alloc, kind='lookup', note=None if judged else 'model-only'))
    out.append((tree, cs))
    return out

def build_env(rng, thorough):
    """the same lookups under another configuration of the server (CORS switched to a list, other pool and buffer settings)"""
    env = [('RWS_CONFIG_IP', '0.0.0.0'), ('RWS_CONFIG_PORT', '8080'), ('RWS_CONFIG_THREAD_COUNT', '2'), ('RWS_CONFIG_CORS_ALLOW_ALL', 'false'),
           ('RWS_CONFIG_CORS_ALLOW_ORIGINS', 'https://foo.example,http://localhost:7878'), ('RWS_CONFIG_CORS_ALLOW_CREDENTIALS', 'true'), ('RWS_CONFIG_CORS_ALLOW_HEADERS', 'content-type,x-custom'),
           ('RWS_CONFIG_CORS_ALLOW_METHODS', 'GET,POST'), ('RWS_CONFIG_CORS_EXPOSE_HEADERS', 'content-type'), ('RWS_CONFIG_CORS_MAX_AGE', '5'),
           ('RWS_CONFIG_REQUEST_ALLOCATION_SIZE_IN_BYTES', '4096')]
    tree, T = X.shape_tree(rng, b'conf/root', thorough)
    cs = []
    for t in (T if thorough else [rng.choice(T) for _ in range(80)]):
        hs = rng.choice([(), [('Origin', 'https://foo.example')], [('Origin', 'https://bar.example')], [('Host', 'localhost'), ('Origin', 'http://localhost:7878')]])
        cs.append(K.mk(tree, 'GET', t, hs, entry='proc', kind='lookup'))
    return env, [(tree, cs)]

def status_of(raw):
    m = re.match(rb'^HTTP/\d\.\d (\d{3}) ', raw or b'')
    return int(m.group(1)) if m else None

def check_hit(res, c, resp, sp, variant, pre=''):
    rel, content = sp['rel'], sp['content']
    if variant == 'link-text-resolution':
        # one signature for every symptom of this finding (416, another file's bytes)
        if resp['status'] != 200 or resp['body'] != content:
            res.fail(pre + 'lookup-miss:link-text-resolution', c.line[:300], f'status {resp["status"]}, {len(resp["body"])} bytes', None,
                     f'C02: GET {c.target[:200]!r} should serve {rel[:200]!r} ({len(content)} bytes) through a link; answered {resp["status"]} with {len(resp["body"])} bytes')
        return
    if resp['status'] != 200:
        res.fail(pre + 'lookup-miss' + (':' + variant if variant else ''), c.line[:300], f'status {resp["status"]}', None,
                 f'C02: GET {c.target[:200]!r} should serve {rel[:200]!r} ({len(content)} bytes) but was answered {resp["status"]}')
        return
    body, coded = resp['body'], None
    ce = [x.strip().lower() for v in H.get(resp['headers'], 'Content-Encoding') for x in v.split(',') if x.strip() and x.strip().lower() != 'identity']
    if ce:
        # a content coding the request asked for: the statement's "body" is what the coding carries.  Without such a request, or with a coding
        # nobody asked for, the bytes on the wire have to be the file's
        if len(ce) == 1 and accepts_coding(c, ce[0]):
            if ce[0] in ('gzip', 'x-gzip', 'deflate'):
                coded = ce[0]
                try:
                    import zlib
                    body = zlib.decompress(body, 47 if coded != 'deflate' else 15)
                except Exception:      # noqa
                    try: body = zlib.decompress(resp['body'], -15)
                    except Exception: body = None      # noqa
                if body is None:
                    res.fail(pre + 'wrong-bytes', c.line[:300], f'Content-Encoding {coded}, {len(resp["body"])} bytes that do not decode', None,
                             f'C02: body of GET {c.target[:200]!r} is labelled {coded} and does not decode: it is not {rel[:200]!r}')
                    return
            else:
                res.count('not judged: body in a content coding the request asked for and this check cannot decode (%s)' % ce[0]); return
    if body != content:
        res.fail(pre + 'wrong-bytes', c.line[:300], f'{len(body)} bytes' + (f' (after decoding {coded})' if coded else '') + f', first difference at {first_diff(body, content)}', None,
                 f'C02: body of GET {c.target[:200]!r} is not byte-identical to {rel[:200]!r} ({len(content)} bytes)')
    cl = H.get(resp['headers'], 'Content-Length')
    if not coded and cl != [str(len(content))]:
        res.fail(pre + 'wrong-content-length', c.line[:300], str(cl), None, f'C02: Content-Length {cl} for a file of {len(content)} bytes')
    ext = K.ext_of(rel)
    # whether a link is typed by its own name or by its target's is not stated: judged when the two carry the same extension
    if sp.get('final_link') and K.ext_of(sp['cand']) != ext: return
    want = X.types_for(ext) if ext is not None else None
    if want:
        ct = H.get(resp['headers'], 'Content-Type')
        if len(ct) != 1 or ct[0] not in want:
            res.fail(pre + 'wrong-media-type', c.line[:300], str(ct), None, f'C02: {rel[:200]!r} labelled {ct}, expected {sorted(want)}')

def accepts_coding(c, coding):
    """does the request list this content coding (or *) in Accept-Encoding with a quality other than 0? (read leniently)"""
    names = {'x-gzip': ('gzip', 'x-gzip'), 'gzip': ('gzip', 'x-gzip')}.get(coding, (coding,))
    for n, v in c.headers or ():
        if str(n).lower() != 'accept-encoding': continue
        for item in str(v).lower().split(','):
            parts = [x.strip() for x in item.split(';')]
            if parts[0] not in names and parts[0] != '*': continue
            q = [x.split('=', 1)[1].strip() for x in parts[1:] if x.replace(' ', '').startswith('q=')]
            try:
                if q and float(q[0]) == 0: continue
            except ValueError: pass
            return True
    return False

def judge(res, results):
    for tr in {id(c.tree): c.tree for c, _, _, _ in results}.values():
        # (generation is over: the tree no longer changes; servecheck.spec_lookup asks for this mapping on every call)
        tr.under_root = (lambda m: (lambda: m))(S.Tree.under_root(tr))
    for c, r, il, ml in results:
        res.evaluations += 1
        res.distinct.add(hash((c.entry, c.raw, c.alloc, id(c.tree))))
        if ml is not None:
            res.programs += 1
            if il != ml: res.disagree(c.line[:400], il[:300], ml[:300], 'StaticResourceController / lookup')
        if r['head'].startswith(('panic', 'abort')):
            # no answer at all.  Why the server must not panic is C04's; that a file the documented lookup selects was NOT returned is this property's
            if r['head'].startswith('abort not-run'):
                res.count('not run: the process of this scenario had ended on an earlier case'); continue
            if c.note != 'model-only' and not (c.note or '').startswith(F2.NOTJ) and c.entry != 'preq' and c.method == 'GET':
                sp = X.spec_checked(c.tree, c.target.encode('utf-8', 'surrogateescape'))
                if sp['kind'] == 'hit' and not sp['variant'] and not getattr(c.tree, 'cwd_refused', False) and not K.fragment_has_qmark(c.target.encode('utf-8', 'surrogateescape')):
                    res.fail('lookup-miss:no-answer', c.line[:300], r['head'][:200], None, f'C02: GET {c.target[:200]!r} should serve {sp["rel"][:200]!r}; the handler ended without an answer: {r["head"][:120]}')
            continue
        if c.note == 'model-only':
            res.count('not judged: ' + c.entry + ' request outside the statement (conditional header, malformed or cut request)')
            continue
        if c.note and c.note.startswith(F2.NOTJ):
            res.count(c.note); continue
        # every buffer written counts (the answer is what the peer receives), and every answer on the connection: requests that arrived in
        # one read are GETs of their own - whatever is answered in the k-th place has to be the answer to the k-th of them
        sent = r['recv'] if not (c.ws or '').startswith('e:') else (r['writes'][0] if r['writes'] else b'')
        targets = F2.STREAMS.get(c.raw) if c.entry == 'proc' else None
        if targets is None:
            judge_answer(res, c, X.split_answers(sent)[:1], c.target.encode('utf-8', 'surrogateescape'))
        else:
            answers = X.split_answers(sent)
            res.count('requests in one read: %d answered' % min(len(answers), len(targets)))
            for k, tg in enumerate(targets):
                if k and k >= len(answers): break
                judge_answer(res, c, answers[k:k + 1], tg.encode('utf-8', 'surrogateescape'), k)

def judge_answer(res, c, answer, tb, k=0):
    """one answer (as [(head, body)], or [] when nothing came) against the documented lookup for the target `tb`"""
    raw = answer[0][0] + answer[0][1] if answer else b''
    tshow = tb.decode('utf-8', 'replace')[:200]
    nth = '' if not k else ' (request number %d of one read)' % (k + 1)
    if True:
        if c.entry == 'preq':
            # the legacy chain serves plain files only; on the common domain (a regular file named exactly, no query, no fragment) the two entry points agree
            sp = X.spec_checked(c.tree, tb)
            if sp['kind'] == 'hit' and not sp['linked'] and not sp['variant'] and b'/' + sp['rel'] == tb and not getattr(c.tree, 'cwd_refused', False):
                resp, why = K.parse_resp(raw, STATUS)
                if resp is None:
                    if raw and status_of(raw) != 200:
                        res.fail('legacy-lookup-miss', c.line[:300], raw[:60].hex(), None, f'C02: legacy entry, GET {tshow!r} should serve {sp["rel"][:200]!r}: {why}')
                    return
                res.count('spec hit (legacy entry, common domain)')
                check_hit(res, c, resp, sp, None, 'legacy-')
            return
        sp = X.spec_checked(c.tree, tb)
        res.count('spec ' + sp['kind'] + (' ' + sp['why'] if sp['kind'] == 'unspecified' else '') + (' through a link' if sp.get('linked') else ''))
        resp, why = K.parse_resp(raw, STATUS)
        if resp is None:
            # an answer the strict reader refuses: not a 200 / 404 at all?
            st = status_of(raw)
            if raw and sp['kind'] == 'hit' and st != 200 and not sp['variant'] and not getattr(c.tree, 'cwd_refused', False) and not K.fragment_has_qmark(tb):
                res.fail('lookup-miss:unreadable-answer', c.line[:300], raw[:60].hex(), None, f'C02: GET {tshow!r}{nth} should serve {sp["rel"][:200]!r}; answer: {why}')
            elif raw and sp['kind'] == 'miss' and st != 404:
                res.fail('miss-not-404', c.line[:300], raw[:60].hex(), None, f'C02: GET {tshow!r}{nth} selects nothing; answer: {why}')
            return
        if sp['kind'] == 'hit':
            variant = 'cwd-refused' if getattr(c.tree, 'cwd_refused', False) else sp['variant'] if sp['variant'] else ('fragment-qmark' if K.fragment_has_qmark(tb) else None)
            if variant is None and sp.get('linked'):
                # the file behind a link has a name of its own: one that file-ext refuses (F43b) or that is not UTF-8 (F43c)
                if any(ch in sp['rel'] for ch in b' \'"&|;'): variant = 'refused-char-behind-link'
                else:
                    try: sp['rel'].decode('utf-8')
                    except UnicodeDecodeError: variant = 'non-utf8-behind-link'
            if k:
                c = K.Case(**{a: getattr(c, a) for a in K.Case.__slots__}); c.target = tshow + nth
            check_hit(res, c, resp, sp, variant)
        elif sp['kind'] == 'miss':
            if resp['status'] != 404:
                res.fail('miss-not-404', c.line[:300], f'status {resp["status"]}', None, f'C02: GET {tshow!r}{nth} selects nothing but was answered {resp["status"]}')
            own404 = c.tree.under_root().get(b'404.html')
            ok_body = (resp['body'] == own404) if own404 is not None else resp['body'].startswith(K.BUILTIN_404_PREFIX)
            if not ok_body:
                res.fail('miss-body-not-notfound-page', c.line[:300], resp['body'][:60].hex(), None,
                         f'C02: the 404 for {tshow!r}{nth} carries something other than the not-found page (a listing or another file)')

def first_diff(a, b):
    for i, (x, y) in enumerate(zip(a, b)):
        if x != y: return i
    return min(len(a), len(b))

def run(res, tier, seed):
    import threading
    from props import mime_part
    rng = C.Rng(seed)
    # generation is sequential (one PRNG stream); the three campaigns then run side by side
    batches = build(rng, tier)
    env, ebatches = build_env(rng, tier != 'quick')
    mlines, mmeta = mime_part.gen_lines(rng, tier)
    # second audit pass: feature-style classes (a generator of their own, forked from the seed: the streams above stay what they were)
    frng = rng.fork('c02-features')
    import os
    skip2 = bool(os.environ.get('C02_SKIP_AUDIT2'))          # (for timing the first-pass generator alone)
    fbatches = [] if skip2 else F2.batches(frng, tier != 'quick')
    if not skip2: ebatches = ebatches + [F2.env_batch(frng, tier != 'quick')]
    scenarios = [] if skip2 else F2.scenarios(frng, tier != 'quick')
    out = {}
    ts = [threading.Thread(target=lambda: out.__setitem__('main', K.run_batches(batches, with_model=WITH_MODEL))),
          threading.Thread(target=lambda: out.__setitem__('env', K.run_batches(ebatches, with_model=WITH_MODEL, env=env))),
          threading.Thread(target=lambda: out.__setitem__('mime', C.run_both(mlines))),
          threading.Thread(target=lambda: out.__setitem__('feat', K.run_batches(fbatches, with_model=WITH_MODEL))),
          threading.Thread(target=lambda: out.__setitem__('live', LV.run_scenarios(scenarios)))]
    for t in ts: t.start()
    for t in ts: t.join()
    results = out['main'] + out['env'] + out['feat'] + [(c, r, None, None) for c, r, sc in out['live']]
    for sc in scenarios:
        if not sc.get('setup_ok'): res.notes.append('scenario %s: the harness refused the set-up lines' % sc.get('name'))
    judge(res, results)
    mimpl, mmodel = out['mime']
    mime_part.judge(res, mlines, mmeta, mimpl, mmodel)
    res.rule = ('trees: nested directories, empty files, position-dependent and random binary content incl. all 256 byte values, sizes around 8191/8192/8193 and '
                '9999/10000/10001, names with several dots / none / leading dot / non-ASCII / upper-case extension, symlink, own index.html/404.html present or not; '
                'paths: every file, with query, fragment, both; .html fallback with and without query; near misses (extra slash, truncated, suffixed, '
                'extensionless, doubled slash, ./, letter case); directories with and without index; missing; '
                'shape trees (vlib/gen_c02.py): precedence of the three steps, request extension vs selected file, empty files at every step, spellings of index.html/.html, '
                'names of the built-in routes elsewhere, special / long / deep / non-ASCII names, links to directories, as index, as page, chains, dangling, loops, '
                'same names at several levels, case twins; contents (NUL, blanks, line ends, encodings) and sizes around 4096..1 MiB blocks through all three steps; '
                'one file per registered extension through the server; request headers, protocol versions, requests around the buffer size, buffer sizes, '
                'served-directory names and a second configuration; repeated requests; '
                'feature classes (vlib/gen_c02.py feature_tree, props/c02_features.py): precompressed side files (current, outdated, not the coding they claim, a directory, a pipe, alone) x Accept-Encoding; '
                'neighbours a negotiating server would prefer (other type / language / density / colour scheme / minified) x Accept, Accept-Language, client hints; directories named like the Host, the '
                'forwarded host, the proxy prefix x those headers; access-control and configuration files x Authorization; magic numbers x extensions; default documents, index twins, a directory of many '
                'entries, names that are not UTF-8; chains of 39 and 40 links; conditional requests that cannot hold; long values of 2-, 3- and 4-byte characters in query, fragment and logged headers; '
                'files as long as the request buffer; peers that take few bytes per write; several requests in one read (every answer); modification times (1970-, 2038+, 2106+, sub-second, directory '
                'older than its index, link older than its target, side file older than its original), files locked by another process, special files next to the served ones, files that change '
                'between two answers of one process (grown, shrunk, replaced, edited, deleted, created, renamed, link re-pointed, index / page appears and disappears, file <-> directory, not-found page) '
                'with validators of the state before; distinct = (tree, entry, buffer, request)')
    for c, r, il, ml in results[:3]:
        res.sample({'entry': c.entry, 'target': c.target, 'status_line': r['recv'][:30].decode('latin1'), 'spec': str(X.spec_checked(c.tree, c.target.encode('utf-8', 'surrogateescape')).get('kind'))})
