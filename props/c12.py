"""C12 — effective settings: command line over config file over environment over defaults.

Correspondence: the real start-up code (src/entry_point/**) vs Rws.Config (Lean model)
  * whole start-up (`set_default_values(); bootstrap()` + typed getters) in a FRESH PROCESS per
    case: `rws_harness config <cli…>` with the case's environment, a scratch working directory
    holding (or not) `rws.config.toml`, and the case's argv — op `cfgstart`;
  * the stages in-process, in bulk: `cfgdef` (set_default_values), `cfgfile` (read_config_file),
    `cfgargs` (CommandLineArgument::_parse), `cfgget` (typed getters).
Oracle on the implementation alone: the precedence rule written directly below (`expect`), over
the DOCUMENTED spellings (table `SETTINGS`, typed from rws.command_line / rws.config.toml /
rws.variables / CONFIGURE.md, not read from the source)."""
import os, re, shutil, subprocess, sys, tempfile, itertools
from concurrent.futures import ThreadPoolExecutor
from vlib import common as C
from vlib import gen_c12 as G

DRIVERS = ['Config']   # model driver files this check runs: scopes translator failures to the tables they (and the proofs) import
TRUSTED = ['Rust std: env::var/set_var/args, str::split_once/replace/trim, BufRead::lines, iN::from_str (modelled in Rws/Config.lean)',
           'model abstraction: a panic inside std::env::set_var (NUL in a value) is named "std:env::set_var" on both sides',
           'translator/gens/config.py for the flag table, the defaults and the documented examples']
ASSUMPTIONS = ['the process environment and argv are NUL-free (operating system), argv is valid UTF-8',
               'oracle: the precedence rule and the documented spellings as typed in props/c12.py',
               'TOML values in oracle-judged files are drawn from the class C12_toml states (no blank # quote bracket inside the value, no Unicode white space at its edges); white space is space and TAB']

# (variable, short, long, toml table, toml key, documented default) — the documented spellings
SETTINGS = [
    ('RWS_CONFIG_IP', 'i', 'ip', '', 'ip', '127.0.0.1'),
    ('RWS_CONFIG_PORT', 'p', 'port', '', 'port', '7878'),
    ('RWS_CONFIG_THREAD_COUNT', 't', 'thread-count', '', 'thread_count', '200'),
    ('RWS_CONFIG_CORS_ALLOW_ALL', 'a', 'cors-allow-all', 'cors', 'allow_all', 'true'),
    ('RWS_CONFIG_CORS_ALLOW_ORIGINS', 'o', 'cors-allow-origins', 'cors', 'allow_origins', ''),
    ('RWS_CONFIG_CORS_ALLOW_METHODS', 'm', 'cors-allow-methods', 'cors', 'allow_methods', ''),
    ('RWS_CONFIG_CORS_ALLOW_HEADERS', 'h', 'cors-allow-headers', 'cors', 'allow_headers', ''),
    ('RWS_CONFIG_CORS_ALLOW_CREDENTIALS', 'c', 'cors-allow-credentials', 'cors', 'allow_credentials', ''),
    ('RWS_CONFIG_CORS_EXPOSE_HEADERS', 'e', 'cors-expose-headers', 'cors', 'expose_headers', ''),
    ('RWS_CONFIG_CORS_MAX_AGE', 'g', 'cors-max-age', 'cors', 'max_age', '86400'),
    ('RWS_CONFIG_REQUEST_ALLOCATION_SIZE_IN_BYTES', 'r', 'request-allocation-size-in-bytes', '', 'request-allocation-size-in-bytes', '10000'),
]
VARS = [s[0] for s in SETTINGS]
BYVAR = {s[0]: s for s in SETTINGS}
LISTY = {'RWS_CONFIG_CORS_ALLOW_ORIGINS', 'RWS_CONFIG_CORS_ALLOW_METHODS', 'RWS_CONFIG_CORS_ALLOW_HEADERS',
         'RWS_CONFIG_CORS_EXPOSE_HEADERS'}
ARGV0 = [C.HARNESS_BIN, 'config']

def b(x): return x.encode('utf-8') if isinstance(x, str) else x
def short(x, n=600):
    r = repr(x)
    return r if len(r) <= n else r[:n // 2] + ' … ' + r[-n // 2:] + f' ({len(r)} characters)'

# ------------------------------------------------------------------ protocol encoding
def enc_env(env):
    return ','.join(f'{C.hx(b(k))}:{C.hx(b(v))}' for k, v in env) if env else '-'
def enc_words(ws):
    return ','.join(C.hx(b(w)) for w in ws) if ws else '-'
def enc_file(f):
    return '~' if f is None else C.hx(b(f))
def line_start(env, file, cli):
    return f'cfgstart {enc_env(env)} {enc_file(file)} {enc_words(ARGV0 + list(cli))}'
def dec_vars(out):
    """`ok n:v n:v … [ip port tc alloc]` -> (dict var->bytes|None, getters|None)"""
    if not out.startswith('ok'): return None, None
    vals, rest = {}, []
    for tok in out.split()[1:]:
        if ':' in tok:
            n, v = tok.split(':')
            vals[C.unhx(n).decode()] = None if v == '!' else C.unhx(v)
        else: rest.append(tok)
    return vals, (rest if rest else None)

# ------------------------------------------------------------------ fresh process per case
def run_start_case(case):
    env, file, cli = case
    d = tempfile.mkdtemp(prefix='c12-')
    try:
        # G.Cli (a list) may carry the shape of the working directory: rws.config.toml as a symbolic link
        # (`link`: target path relative to the working directory, or 'abs'), other files next to it (`decoys`),
        # the working directory itself as a sub-directory with an odd name (`subdir`), rws.config.toml as something
        # that is no regular file (`kind`)
        link, decoys = getattr(cli, 'link', None), getattr(cli, 'decoys', {})
        subdir, kind = getattr(cli, 'subdir', None), getattr(cli, 'kind', None)
        wd = d
        if subdir:
            wd = os.path.join(os.fsencode(d), subdir) if isinstance(subdir, bytes) else os.path.join(d, subdir)
            os.makedirs(wd, exist_ok=True)
        J = lambda name: os.path.join(wd, os.fsencode(name) if isinstance(wd, bytes) else name)
        for name, content in decoys.items():
            os.makedirs(os.path.dirname(J(name)), exist_ok=True)
            with open(J(name), 'wb') as fh: fh.write(b(content))
        if kind == 'dir':
            os.makedirs(J('rws.config.toml'))
            with open(J('rws.config.toml/rws.config.toml'), 'wb') as fh: fh.write(b'port = 1\n[cors]\nmax_age = 1\n')
        elif kind == 'dangling': os.symlink('missing.toml', J('rws.config.toml'))
        elif kind == 'loop': os.symlink('rws.config.toml', J('rws.config.toml'))
        elif kind == 'fifo': os.mkfifo(J('rws.config.toml'))
        if file is not None and not kind:
            real = 'rws.config.toml' if not link else 'elsewhere/settings.toml' if link == 'abs' else link
            os.makedirs(os.path.dirname(J(real)), exist_ok=True)
            with open(J(real), 'wb') as fh: fh.write(b(file))
            if link: os.symlink(J(real) if link == 'abs' else real, J('rws.config.toml'))
        e = {b(k): b(v) for k, v in env}
        try:
            p = subprocess.run([b(x) for x in ARGV0 + list(cli)], cwd=wd, env=e, stdout=subprocess.PIPE,
                               stderr=subprocess.DEVNULL, timeout=(8 if kind == 'fifo' else 60))
        except subprocess.TimeoutExpired:
            return 'abort timeout'
        for ln in reversed(p.stdout.decode('utf-8', 'replace').split('\n')):
            if ln.startswith('RESULT '): return ln[7:].strip()
        return f'abort {p.returncode}'
    finally:
        shutil.rmtree(d, ignore_errors=True)

def run_start(cases):
    with ThreadPoolExecutor(max_workers=min(C.NCPU, 12)) as ex:
        return list(ex.map(run_start_case, cases))

# ------------------------------------------------------------------ oracle
def flag_value(arg, s):
    """value given by `arg` to setting s under the documented spellings, else None"""
    for sp in ('-' + s[1] + '=', '--' + s[2] + '='):
        if arg.startswith(sp): return arg[len(sp):]
    return None

def last(xs):
    xs = [x for x in xs if x is not None]
    return xs[-1] if xs else None

def expect(env, assigns, cli):
    """THE PROPERTY: command line, else config file, else environment, else documented default.
    `assigns` = the file's (variable, value) assignments in file order (None: no file)."""
    out = {}
    envd = dict(env)
    for s in SETTINGS:
        v = last(flag_value(a, s) for a in cli)
        if v is None and assigns is not None: v = last(val for var, val in assigns if var == s[0])
        if v is None: v = envd.get(s[0])
        if v is None: v = s[5]
        out[s[0]] = b(v)
    return out

def parse_int(text, bits):
    try: t = text.decode('utf-8')
    except UnicodeDecodeError: return None
    if not re.fullmatch(r'[+-]?[0-9]+', t, re.A): return None
    n = int(t)
    return n if -(1 << (bits - 1)) <= n < (1 << (bits - 1)) else None

def expect_getters(vals):
    def num(var, bits, dflt):
        n = parse_int(vals[var], bits)
        return str(dflt if n is None else n)
    return [C.hx(vals['RWS_CONFIG_IP']), num('RWS_CONFIG_PORT', 32, 7878), num('RWS_CONFIG_THREAD_COUNT', 32, 200),
            num('RWS_CONFIG_REQUEST_ALLOCATION_SIZE_IN_BYTES', 64, 10000)]

# ------------------------------------------------------------------ value pools / TOML renderer
def value_for(rng, var, tag):
    """a realistic value for `var`, distinct per source tag (0 env, 1 file, 2 cli, 3.. extra)"""
    k = VARS.index(var)
    if var == 'RWS_CONFIG_IP': return f'10.{tag}.{k}.{rng.range(1, 250)}'
    if var == 'RWS_CONFIG_PORT': return str([6000, 7001, 8000, 9000, 9100][tag % 5] + rng.range(0, 99))
    if var == 'RWS_CONFIG_THREAD_COUNT': return str([10, 20, 30, 40, 50][tag % 5] + rng.range(0, 9))
    if var == 'RWS_CONFIG_REQUEST_ALLOCATION_SIZE_IN_BYTES': return str([11000, 12000, 13000, 14000, 15000][tag % 5] + rng.range(0, 999))
    if var == 'RWS_CONFIG_CORS_MAX_AGE': return str([100, 200, 300, 400, 500][tag % 5] + rng.range(0, 99))
    if var in ('RWS_CONFIG_CORS_ALLOW_ALL', 'RWS_CONFIG_CORS_ALLOW_CREDENTIALS'):
        return ['false', 'off', 'False', 'FALSE', 'no'][tag % 5]
    if var == 'RWS_CONFIG_CORS_ALLOW_ORIGINS':
        return ','.join(f'https://{w}{tag}.example' + (':8443' if rng.chance(1, 4) else '') for w in rng.choice([['foo'], ['foo', 'bar'], ['a', 'b', 'c']]))
    if var == 'RWS_CONFIG_CORS_ALLOW_METHODS':
        ms = ['GET', 'POST', 'PUT', 'DELETE', 'PATCH', 'HEAD', 'OPTIONS']
        n = rng.range(1, 4); st = rng.range(0, 6)
        return ','.join(ms[(st + i * (tag + 1)) % 7] for i in range(n)) + f',X{tag}'
    return ','.join([f'x-{["env", "file", "cli", "d", "e"][tag % 5]}-header', 'content-type', 'é-accent', 'x_under_score'][:rng.range(1, 4)])

def spell_key(rng, key):
    """any mixture of `_` and `-` reaches the same setting"""
    return ''.join((rng.choice('_-') if ch in '_-' else ch) for ch in key)

def sp(rng, lo=0, hi=3): return ''.join(rng.choice('   \t') for _ in range(rng.range(lo, hi)))   # TOML white space: space / TAB

def render_value(rng, var, val, style=None):
    parts = val.split(',')
    styles = ['dq', 'sq', 'bare']
    if var in LISTY or len(parts) > 1: styles += ['arr', 'arr']
    style = style or rng.choice(styles)
    if style == 'arr':
        q = rng.choice('"\'')
        return '[' + sp(rng) + (',' + sp(rng)).join(sp(rng, 0, 1) + q + p + q for p in parts) + sp(rng) + ']'
    if style == 'dq': return '"' + val + '"'
    if style == 'sq': return "'" + val + "'"
    return val

COMMENTS = ['', ' a comment', ' port = 1', '# [cors]', ' "quoted" = [x]', ' commentaire é']

def render_assign(rng, key, var, val, style=None, comment=None):
    line = sp(rng) + key + sp(rng) + '=' + sp(rng) + render_value(rng, var, val, style) + sp(rng)
    if comment is None: comment = rng.chance(1, 2)
    if comment: line += '#' + rng.choice(COMMENTS)
    return line

def noise_lines(rng):
    out = []
    for _ in range(rng.range(0, 2)):
        out.append(rng.choice(['', '   ', ' \t', '# comment', '  # indented comment', '\t#\ttabbed comment', '#', '# ip = "9.9.9.9"', '#port=1']))
    return out

def render_file(rng, assigns, eol='\n', final_eol=True, dup=False):
    """assigns: list of (var, value); top-level keys first (any order), then the [cors] table
    (any order) — as TOML requires; returns (text, assignments in file order)"""
    top = [(v, x) for v, x in assigns if BYVAR[v][3] == '']
    cors = [(v, x) for v, x in assigns if BYVAR[v][3] == 'cors']
    rng.shuffle(top); rng.shuffle(cors)
    lines, order = [], []
    lines += noise_lines(rng)
    for v, x in top:
        lines.append(render_assign(rng, spell_key(rng, BYVAR[v][4]), v, x)); order.append((v, x))
        lines += noise_lines(rng)
    if cors or rng.chance(1, 3):
        lines.append(sp(rng) + '[' + 'cors' + ']' + sp(rng) + ('# cross origin' if rng.chance(1, 3) else ''))
        lines += noise_lines(rng)
        for v, x in cors:
            lines.append(render_assign(rng, spell_key(rng, BYVAR[v][4]), v, x)); order.append((v, x))
            lines += noise_lines(rng)
    text = eol.join(lines) + (eol if final_eol and lines else '')
    return text, order

def cli_arg(rng, var, val, form=None):
    s = BYVAR[var]
    form = form or rng.choice(['short', 'long'])
    return ('-' + s[1] if form == 'short' else '--' + s[2]) + '=' + val

# ------------------------------------------------------------------ the run
def run(res, tier, seed):
    # C.Rng(seed) starts at seed * gamma and steps by gamma: the streams of seeds 1, 2, 3 … are ONE stream shifted by a draw,
    # and the generators below fall into step after a few cases.  Forking hashes the state: the seeds become unrelated.
    rng = C.Rng(seed).fork('C12')
    quick = tier == 'quick'
    # ======================================================= A. fresh-process cases (cfgstart)
    S = []      # (kind, (env, file, cli), assigns|None, judged)
    # A1 exhaustive: 11 settings x 8 subsets of {environment, file, command line}, distinct values
    for var in VARS:
        for mask in range(8):
            ve, vf, vc = (value_for(rng, var, t) for t in (0, 1, 2))
            env = [(var, ve)] if mask & 1 else []
            file, assigns = (render_file(rng, [(var, vf)]) if mask & 2 else (None, None))
            cli = [cli_arg(rng, var, vc)] if mask & 4 else []
            S.append((f'subset mask={mask}', (env, file, cli), assigns, True))
    # A2 every documented spelling of every setting, alone
    for s in SETTINGS:
        var = s[0]; v = value_for(rng, var, 3)
        S.append(('spelling short', ([], None, ['-' + s[1] + '=' + v]), None, True))
        S.append(('spelling long', ([], None, ['--' + s[2] + '=' + v]), None, True))
        S.append(('spelling variable', ([(var, v)], None, []), None, True))
        hdr = f'[{s[3]}]\n' if s[3] else ''
        for key in sorted({s[4], s[4].replace('_', '-'), s[4].replace('-', '_')}):      # sorted: set order depends on PYTHONHASHSEED
            for style in ('dq', 'bare') + (('arr',) if var in LISTY else ()):
                q = render_value(rng, var, v, style)
                S.append(('spelling toml ' + ('[cors] key' if s[3] else 'key'), ([], f'{hdr}{key} = {q}\n', []), [(var, v)], True))
    # A3 sampled cross-setting combinations (one setting must never clobber another)
    n_combo = 140 if quick else 1500
    for i in range(n_combo):
        env, fa, cli = [], [], []
        want_file = rng.chance(3, 4)
        for var in VARS:
            m = rng.below(8) if rng.chance(2, 3) else 0
            if m & 1: env.append((var, value_for(rng, var, 0)))
            if m & 2 and want_file: fa.append((var, value_for(rng, var, 1)))
            if m & 4:
                cli.append(cli_arg(rng, var, value_for(rng, var, 2)))
                if rng.chance(1, 5): cli.append(cli_arg(rng, var, value_for(rng, var, 4)))      # repeated: last wins
        rng.shuffle(cli); rng.shuffle(env)
        # words that must be ignored: no '=', unknown flags, near-miss spellings
        for _ in range(rng.range(0, 2)):
            cli.insert(rng.below(len(cli) + 1), rng.choice(['--verbose', 'serve', '-x=1', '--unknown=2', '--ports=1', '-pp=3', 'port=4', '--=5', '=6', '-=7']))
        file, assigns = render_file(rng, fa, eol=rng.choice(['\n', '\n', '\r\n']), final_eol=rng.chance(3, 4)) if want_file else (None, None)
        S.append(('combination', (env, file, cli), assigns, True))
    # A4 file present but empty / comments only / absent; the documented examples
    S.append(('file empty', ([], '', []), [], True))
    S.append(('file comments only', ([('RWS_CONFIG_PORT', '6000')], '# nothing\n\n   \n#\n', []), [], True))
    root = C.REPO
    doc_cl = [l for l in open(os.path.join(root, 'rws.command_line')).read().split('\n') if l.startswith('rws ')]
    doc_toml = open(os.path.join(root, 'rws.config.toml')).read()
    doc_vars = re.findall(r'^export (\w+)="([^"]*)"', open(os.path.join(root, 'rws.variables')).read(), re.M)
    doc_start = len(S)
    for l in doc_cl:
        S.append(('documented command line', ([], None, l.split()[1:]), None, 'doc-cli'))
    S.append(('documented rws.config.toml', ([], doc_toml, []), None, 'doc-toml'))
    S.append(('documented rws.variables', (doc_vars, None, []), None, 'doc-vars'))
    # regression inputs of the `fix:` commits (must now give the right answer on both sides)
    S.append(('regression tab is white space', ([], 'port\t=\t7001\n\tip = "10.1.1.1"\t# c\n[cors]\n\tmax_age\t=\t"5"\n', []),
              [('RWS_CONFIG_PORT', '7001'), ('RWS_CONFIG_IP', '10.1.1.1'), ('RWS_CONFIG_CORS_MAX_AGE', '5')], True))
    S.append(('regression documented --cors-allow-methods', ([], None, ['--cors-allow-methods=GET,POST,PUT,DELETE']), None, True))
    # A5 outside the property's quantifier, correspondence only: NUL / non-UTF-8 / odd bytes
    S.append(('x nul in file', ([], 'port = "1\0"\n', []), None, False))
    S.append(('x non-utf8 file', ([('RWS_CONFIG_PORT', '6000')], b'port = 7001\nip = "\xff"\n', ['-t=5']), None, False))
    S.append(('x non-utf8 env', ([('RWS_CONFIG_IP', b'\xff\xfe'), ('RWS_CONFIG_PORT', b'80\xc3')], 'thread_count = 3\n', []), None, False))
    S.append(('x empty env value', ([('RWS_CONFIG_IP', ''), ('RWS_CONFIG_PORT', '')], None, []), None, False))
    S.append(('x tab and crlf', ([], 'port\t=\t1\r\nip = 2 \t# c\r\nthread_count=3\r', []), None, False))
    # A6 classes added by the generator audit (vlib/gen_c12.py, audit/C12/AUDIT.md): own PRNG stream, so A1-A5 stay as they were
    S += G.start_cases(sys.modules[__name__], C.Rng(seed).fork('C12 gen-start'), quick)
    # A7 second audit pass (audit/C12/AUDIT2.md): relations inside one configuration - again an own PRNG stream
    S += G.start_cases2(sys.modules[__name__], C.Rng(seed).fork('C12 gen2-start'), quick)

    start_lines = [line_start(*c[1]) for c in S]
    import threading
    box = {}
    th = threading.Thread(target=lambda: box.__setitem__('m', C.run_model(start_lines)))     # the model answers while the processes run
    th.start()
    impl_s = run_start([c[1] for c in S])
    th.join()
    model_s = box['m']
    C.compare(res, start_lines, impl_s, model_s, 'startup (fresh process)')
    for k, ((kind, case, assigns, judged), ln, a) in enumerate(zip(S, start_lines, impl_s)):
        res.count('start ' + re.sub(r' mask=\d', '', kind))
        if not judged: continue
        vals, getters = dec_vars(a)
        if vals is None:
            res.fail('startup:' + a.split(' ')[0], ln, a, model_s[k], f'start-up did not complete for a configuration inside the quantifier ({kind})')
            continue
        env, file, cli = case
        if judged is True:
            want = expect(env, assigns, cli)
            for var in VARS:
                if vals.get(var) != want[var]:
                    src = ('cli' if last(flag_value(x, BYVAR[var]) for x in cli) is not None else
                           'file' if assigns and any(v == var for v, _ in assigns) else 'env' if var in dict(env) else 'default')
                    sig = f'spelling:{kind.split(" ", 1)[1]}:{var}' if kind.startswith('spelling') else f'precedence:{var}:{src}'
                    res.fail(sig, ln, a, model_s[k],
                             f'{kind}: {var} is {vals.get(var)!r}, the rule (cli > file > env > default) gives {want[var]!r}; '
                             f'env={short(env)} file={short(file)} cli={short(cli)}')
                    break
            else:
                if getters != expect_getters(vals):
                    res.fail('getters', ln, a, model_s[k], f'typed getters {getters} do not reflect the variables, expected {expect_getters(vals)}')
        elif judged == 'doc-cli':
            # every `--flag=value` / `-f=value` word of the documented command line must reach a setting
            for w in cli:
                if '=' not in w: continue
                flag, _, v = w.partition('=')
                s = [s for s in SETTINGS if flag in ('-' + s[1], '--' + s[2])]
                if not s or vals[s[0][0]] != b(v):
                    # which setting was meant: the one whose spelling differs only in _ / -
                    res.fail('doc-spelling:' + flag, ln, a, model_s[k],
                             f'rws.command_line documents `{w}` but no setting took the value {v!r}')
        elif judged == 'doc-toml':
            import tomllib
            t = tomllib.loads(doc_toml)
            flat = {}
            for kk, vv in t.items():
                if isinstance(vv, dict):
                    for k2, v2 in vv.items(): flat[(kk, k2)] = v2
                else: flat[('', kk)] = vv
            for (tab, key), v in flat.items():
                s = [s for s in SETTINGS if s[3] == tab and s[4].replace('_', '-') == key.replace('_', '-')]
                txt = ','.join(v) if isinstance(v, list) else (str(v).lower() if isinstance(v, bool) else str(v))
                if not s or vals[s[0][0]] != b(txt):
                    res.fail(f'doc-spelling:toml:{tab}.{key}', ln, a, model_s[k], f'rws.config.toml documents {tab}.{key} = {v!r}; no setting took {txt!r}')
        elif judged == 'doc-vars':
            for n, v in env:
                if n not in vals or vals[n] != b(v):
                    res.fail('doc-spelling:var:' + n, ln, a, model_s[k], f'rws.variables documents {n}; it did not reach a setting')
    # the two documented command lines are documented as equivalent
    a1, a2 = (dec_vars(impl_s[doc_start])[0], dec_vars(impl_s[doc_start + 1])[0]) if len(doc_cl) == 2 else (None, None)
    if a1 is not None and a2 is not None and a1 != a2 and not any(f['sig'].startswith('doc-spelling:-') for f in res.failures):
        res.fail('doc-equivalent', start_lines[doc_start], impl_s[doc_start], impl_s[doc_start + 1],
                 'rws.command_line says its two invocations are equivalent; they configure different values')

    # ======================================================= B. in-process stage ops, in bulk
    lines, meta = [], []
    def add(op, fields, kind, payload=None):
        lines.append(op + ' ' + ' '.join(fields)); meta.append((kind, payload))
    # B1 set_default_values: every subset pattern incl. empty values; non-UTF-8 (correspondence only)
    for i in range(200 if quick else 3000):
        env = [(v, value_for(rng, v, 0) if rng.chance(4, 5) else '') for v in VARS if rng.chance(1, 2)]
        add('cfgdef', [enc_env(env)], 'def', env)
    for var in VARS:
        add('cfgdef', [enc_env([(var, b'\xc3\x28')])], 'x def non-utf8')
        add('cfgdef', [enc_env([(var, 'ü')])], 'def', [(var, 'ü')])
    # B2 _parse: random argument lists, repeated flags, near-miss spellings, '=' in values
    near = ['--cors-allow_methods=GET', '-port=1', '--p=1', '-p', '8000', '--port', '-P=1', '--PORT=1', '--port =1', ' --port=1',
            '--thread_count=9', '--ip', '=', '-=', '--=', '-i', '--cors=1', '--cors-allow=1', '-cors-allow-all=1']
    for i in range(600 if quick else 20000):
        env = [(v, value_for(rng, v, 0)) for v in VARS if rng.chance(1, 4)]
        args = []
        for _ in range(rng.range(0, 6)):
            var = rng.choice(VARS)
            val = value_for(rng, var, rng.range(1, 4))
            if rng.chance(1, 8): val = rng.choice(['', 'a=b', '=', 'x y', '"q"', '#h', 'ü=é', "it's", '[1,2]', ' lead', 'trail ', '\ttab\t', 'a_b', '-dash', '--port=1'])
            args.append(cli_arg(rng, var, val))
        for _ in range(rng.range(0, 2)): args.insert(rng.below(len(args) + 1), rng.choice(near))
        add('cfgargs', [enc_env(env), enc_words(args)], 'args', (env, args))
    for w in near: add('cfgargs', ['-', enc_words([w])], 'args', ([], [w]))
    # B3 read_config_file: rendered files inside the C12_toml class (judged), and a malformed stream
    for i in range(1200 if quick else 30000):
        fa = [(v, value_for(rng, v, rng.range(1, 4))) for v in VARS if rng.chance(1, 2)]
        env = [(v, value_for(rng, v, 0)) for v in VARS if rng.chance(1, 4)]
        text, order = render_file(rng, fa, eol=rng.choice(['\n', '\n', '\n', '\r\n']), final_eol=rng.chance(4, 5))
        add('cfgfile', [enc_env(env), C.hx(b(text))], 'file', (env, order, text))
    odd = ['port = "a b"\n', 'ip = "1#2"\n', 'ip = \'it"s\'\n', 'ip = "a=b"\n', 'ip = a\tb\n', '\tport = 1\n', 'port\t= 1\n',
           'port = 1\t# c\n', 'port = 1\u00a0# nbsp\n', '\u2003port = 1\u2003# em space\n', 'port = 1\u3000#\n', 'port = 1\u00a0\n', 'ip = "\u00a0" # q\n',
           '[port=1]\n', '[cors]\n[x]\nallow_all = 1\n', '[cors.sub]\nallow_all = 1\n', '[ cors ] # t\nallow-all = 2\n', '[[cors]]\nmax_age=3\n',
           '[cors]\nport = 1\n', 'cors-allow-all = false\n', 'cors_max_age = 1\n', '"port" = 1\n', 'port = 1\nport = 2\n', 'port == 1\n',
           'port = [\n  1\n]\n', 'ip = [[a], [b]]\n', 'ip = "\0"\n', 'zzz = "\0"\n', 'port = 1\r', 'port = 1\r\r\n', '\r\n', 'port=1', '=\n', '=1\n',
           'p = 1\n', '-port = 1\n', 'PORT = 1\n', '#port = 1\nport = 2 # port = 3\n', 'ip = "a,b"\n', 'allow_origins = ["a", "b"]\n',
           '[cors]\nallow_origins = [ "a" , "b" ] # x\nallow_methods=[]\n', 'port = 1\x0b#\n', 'port = 1\u0085#\n', 'port = 1\u2028#\n', 'port = 1\u200b#\n', 'port = 1\u1680\u205f\u202f#\n']
    for t in odd: add('cfgfile', ['-', C.hx(b(t))], 'x file odd')
    base = b(doc_toml)
    alphabet = b' \t#=[]\'"_-\n\r,a1.\xc2\xa0\xe2\x80\x83'
    for i in range(800 if quick else 20000):
        buf = bytearray(base[:rng.range(0, len(base))] if rng.chance(1, 4) else base)
        for _ in range(rng.range(1, 6)):
            p = rng.below(len(buf) + 1); k = rng.below(4)
            if k == 0 and buf: del buf[p % len(buf)]
            elif k == 1: buf[p:p] = bytes([rng.choice(list(alphabet))])
            elif k == 2 and buf: buf[p % len(buf)] = rng.choice(list(alphabet))
            else: buf[p:p] = rng.choice([b'\xc2\xa0', b'\xe2\x80\x83', b'\xe3\x80\x80', b'\xe2\x80\xa8', b'\xc2\x85', b'\xe1\x9a\x80', b'\xe2\x81\x9f', b'\x00', b'[cors]', b'\n['])
        add('cfgfile', ['-', C.hx(bytes(buf))], 'x file mutated')
    # B4 typed getters
    nums = ['0', '1', '80', '+80', '-1', '-0', '080', ' 80', '80 ', '', '+', '-', '+-1', '1e3', '0x10', '١٢', '2147483647', '2147483648',
            '-2147483648', '-2147483649', '4294967296', '9223372036854775807', '9223372036854775808', '-9223372036854775808',
            '-9223372036854775809', '99999999999999999999999', '7878', '200', '10000', '1_000', '1.0']
    for n in nums:
        for var in ('RWS_CONFIG_PORT', 'RWS_CONFIG_THREAD_COUNT', 'RWS_CONFIG_REQUEST_ALLOCATION_SIZE_IN_BYTES'):
            add('cfgget', [enc_env([(var, n), ('RWS_CONFIG_IP', 'h' + n.strip())])], 'get', {var: b(n), 'RWS_CONFIG_IP': b('h' + n.strip())})
    add('cfgget', ['-'], 'x get unset')
    for i in range(100 if quick else 2000):
        n = str(rng.choice([1, -1]) * rng.below(1 << rng.range(1, 70)))
        var = rng.choice(['RWS_CONFIG_PORT', 'RWS_CONFIG_THREAD_COUNT', 'RWS_CONFIG_REQUEST_ALLOCATION_SIZE_IN_BYTES'])
        add('cfgget', [enc_env([(var, n)])], 'x get random')
    # B5 classes added by the generator audit (vlib/gen_c12.py)
    for op, fields, kind, payload in G.stage_cases(sys.modules[__name__], C.Rng(seed).fork('C12 gen-stage'), quick): add(op, fields, kind, payload)
    # B6 second audit pass: the same relations stage by stage, and HISTORIES (the call after a long / short / failing / empty one)
    for op, fields, kind, payload in G.stage_cases2(sys.modules[__name__], C.Rng(seed).fork('C12 gen2-stage'), quick): add(op, fields, kind, payload)

    impl, model = C.run_both(lines)
    C.compare(res, lines, impl, model, 'config stages', nontrivial=lambda ln, a: not ln.endswith(' - -'))
    for ln, (kind, pl), a, m in zip(lines, meta, impl, model):
        res.count(kind)
        if kind.startswith('x '): continue
        vals, getters = dec_vars(a)
        if kind == 'get':
            full = {v: b(BYVAR[v][5]) for v in VARS}; full.update(pl)
            if getters != expect_getters(full):
                res.fail('getters', ln, a, m, f'typed getters {getters}, expected {expect_getters(full)}')
            continue
        if vals is None:
            res.fail(f'{kind}:{a.split(" ")[0]}', ln, a, m, 'stage did not complete'); continue
        if kind == 'def':
            envd = dict(pl)
            for s in SETTINGS:
                w = b(envd.get(s[0], s[5]))
                if vals[s[0]] != w:
                    res.fail(f'default:{s[0]}', ln, a, m, f'{s[0]} is {vals[s[0]]!r} after set_default_values, expected {w!r}'); break
        elif kind == 'args':
            env, args = pl; envd = dict(env)
            for s in SETTINGS:
                v = last(flag_value(x, s) for x in args)
                w = b(v) if v is not None else (b(envd[s[0]]) if s[0] in envd else None)
                if vals[s[0]] != w:
                    res.fail(f'args:{s[0]}', ln, a, m, f'{s[0]} is {vals[s[0]]!r} after _parse({args}), expected {w!r}'); break
        elif kind == 'file':
            env, order, text = pl; envd = dict(env)
            for s in SETTINGS:
                v = last(val for var, val in order if var == s[0])
                w = b(v) if v is not None else (b(envd[s[0]]) if s[0] in envd else None)
                if vals[s[0]] != w:
                    res.fail(f'toml:{s[0]}', ln, a, m, f'{s[0]} is {short(vals[s[0]])} after reading {short(text)}, expected {short(w)}'); break

    res.exhaustive = 'all 11 settings x all 8 subsets of {environment, config file, command line} with distinct values (88 fresh-process start-ups)'
    res.rule = ('fresh-process start-ups: the 88 exhaustive subset cases, every documented spelling of every setting alone, %d sampled '
                'cross-setting combinations (shuffled/repeated flags, ignored words, rendered files), the documented example files; '
                'in-process stage runs: set_default_values over random environments, _parse over random argument lists with near-miss '
                'spellings, read_config_file over rendered files (comments, blank lines, quotes, arrays, key order, spaces, CRLF) and a '
                'mutated/odd stream (tabs, Unicode white space, #, =, quotes in values, NUL, nested tables), typed getters over numeric '
                'edge cases; a case is non-trivial unless both its environment and its input are empty; '
                'generator audit (vlib/gen_c12.py): every other setting saturated from all sources, all settings from one / two / three '
                'sources, the documented default or the empty text written by the higher source, special / punctuation / multi-byte / long '
                'values through every source, near-miss variable names, flags and keys, both flag forms together, long command lines, files '
                'with unrelated keys and tables around [cors], blanks inside the table brackets, triple quotes, mixed quotes, a line end per '
                'line, settings behind 4 KiB - 1 MiB of comments, rws.config.toml as a symbolic link, similarly named files; '
                'second audit pass (audit/C12/AUDIT2.md): a multi-byte character across every byte offset of a value, typical values alone '
                'and in the pairs a cross-setting validation would couple, equal texts in several settings / sources, documented key names '
                'in foreign tables and at the wrong level, the settings behind many other entries, tiny files, every setting on a line across '
                'a power-of-two byte offset, odd working directories, rws.config.toml that is no regular file, unrelated variables that are not '
                'Unicode, a flag word without `=` in front of a documented word, Unicode white space inside a value, texts a case folding / '
                'normalisation / escape processing / interpolation would change, near-miss flags under case folding, and in-process histories '
                '(the call after a long, a short, an empty and a failing one; twins of equal length)' % n_combo)
    res.sample({'op': start_lines[5][:160], 'case': repr(S[5][1])[:200], 'implementation': impl_s[5][:120] + '…', 'model': model_s[5][:120] + '…'})
    k = next(i for i, mm in enumerate(meta) if mm[0] == 'file')
    res.sample({'op': lines[k][:120] + '…', 'file': meta[k][1][2][:300], 'implementation': impl[k][:200] + '…'})
    k = next(i for i, mm in enumerate(meta) if mm[0] == 'args' and mm[1][1])
    res.sample({'op': lines[k][:120] + '…', 'args': meta[k][1][1], 'implementation': impl[k][:200] + '…'})


def replay(rp):
    case = rp.get('case') or (rp.get('correspondence') or {}).get('case')
    if not case:
        print('replay file names no case (broken obligation only):', rp.get('broken')); return 1
    if case.startswith('cfgstart '):
        _, e, f, a = case.split(' ')
        env = [] if e == '-' else [tuple(C.unhx(x) for x in p.split(':')) for p in e.split(',')]
        file = None if f == '~' else C.unhx(f)
        argv = [] if a == '-' else [C.unhx(x) for x in a.split(',')]
        i = [run_start_case((env, file, argv[2:]))]
        m = C.run_model([case])
        print('environment   :', env); print('rws.config.toml:', file); print('argv          :', argv[2:])
    else:
        i, m = C.run_both([case])
    print('case          :', case)
    print('implementation:', i[0]); print('model         :', m[0])
    if rp.get('oracle'): print('oracle        :', rp['oracle'])
    return 0 if i == m and not rp.get('oracle') else 1
